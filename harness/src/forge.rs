//! Construction of adversarial responses: quotations of datagrams that differ from a genuine probe
//! in exactly one identity component (sequence, identifier, ports, destination, marker ...).
use crate::sim::TraceCfg;
use crate::wire::{self, Ip4, Ip6, Rfc4884, PROTO_ICMP, PROTO_ICMP6, PROTO_TCP, PROTO_UDP};
use crate::world::{Injected, PktClass, WirePacket};
use std::net::{IpAddr, Ipv4Addr, Ipv6Addr};
use trippy_core::{MultipathStrategy, PortDirection, Protocol};

/// Where the sequence number of a probe lives on the wire.
#[derive(Debug, Clone, Copy, PartialEq, Eq)]
pub enum SeqField {
    IcmpSeq,
    SrcPort,
    DestPort,
    UdpChecksum,
    Ipv4Id,
    /// UDP length = 8 + 6 (magic) + (sequence - initial sequence)
    UdpLength,
}

pub fn seq_field(tcfg: &TraceCfg) -> SeqField {
    match tcfg.protocol {
        Protocol::Icmp => SeqField::IcmpSeq,
        Protocol::Tcp => match tcfg.ports {
            PortDirection::FixedSrc(_) => SeqField::DestPort,
            _ => SeqField::SrcPort,
        },
        Protocol::Udp => match (tcfg.strategy, tcfg.target.is_ipv6()) {
            (MultipathStrategy::Classic, _) => match tcfg.ports {
                PortDirection::FixedDest(_) => SeqField::SrcPort,
                _ => SeqField::DestPort,
            },
            (MultipathStrategy::Paris, _) => SeqField::UdpChecksum,
            (MultipathStrategy::Dublin, false) => SeqField::Ipv4Id,
            (MultipathStrategy::Dublin, true) => SeqField::UdpLength,
        },
    }
}

fn hdr_len(dgram: &[u8], v6: bool) -> usize {
    if v6 {
        40
    } else {
        usize::from(dgram[0] & 0x0f) * 4
    }
}

/// Read the sequence number from a datagram with an independent decoder.
pub fn get_sequence(tcfg: &TraceCfg, dgram: &[u8]) -> Option<u16> {
    let v6 = tcfg.target.is_ipv6();
    let hl = hdr_len(dgram, v6);
    let t = dgram.get(hl..)?;
    let be = |o: usize| t.get(o..o + 2).map(|b| u16::from_be_bytes([b[0], b[1]]));
    match seq_field(tcfg) {
        SeqField::IcmpSeq => be(6),
        SeqField::SrcPort => be(0),
        SeqField::DestPort => be(2),
        SeqField::UdpChecksum => be(6),
        SeqField::Ipv4Id => Some(u16::from_be_bytes([dgram[4], dgram[5]])),
        SeqField::UdpLength => be(4).map(|l| tcfg.initial_sequence.wrapping_add(l.wrapping_sub(14))),
    }
}

/// Rewrite the sequence number in a datagram (other fields untouched, checksums not repaired:
/// routers do not verify transport checksums of the datagrams they quote).
pub fn set_sequence(tcfg: &TraceCfg, dgram: &[u8], seq: u16) -> Vec<u8> {
    let v6 = tcfg.target.is_ipv6();
    let mut d = dgram.to_vec();
    let hl = hdr_len(&d, v6);
    let put = |d: &mut Vec<u8>, o: usize, v: u16| {
        if d.len() >= o + 2 {
            d[o..o + 2].copy_from_slice(&v.to_be_bytes());
        }
    };
    match seq_field(tcfg) {
        SeqField::IcmpSeq => put(&mut d, hl + 6, seq),
        SeqField::SrcPort => put(&mut d, hl, seq),
        SeqField::DestPort => put(&mut d, hl + 2, seq),
        SeqField::UdpChecksum => put(&mut d, hl + 6, seq),
        SeqField::Ipv4Id => {
            put(&mut d, 4, seq);
            if let Ok(mut ip) = Ip4::parse(&d) {
                ip.fix_hdr_csum();
                d = ip.bytes();
            }
        }
        SeqField::UdpLength => put(&mut d, hl + 4, seq.wrapping_sub(tcfg.initial_sequence).wrapping_add(14)),
    }
    d
}

/// Wrap a quoted datagram into an ICMP error from `responder` to the host, ready for injection.
pub fn icmp_error(v6: bool, responder: IpAddr, host4: Ipv4Addr, host6: Ipv6Addr, target_like: bool, quote: &[u8], te_code: u8) -> (Vec<u8>, IpAddr) {
    let word = if v6 { 8 } else { 4 };
    let body = wire::build_err_body(quote, None, Rfc4884::None, word);
    match responder {
        IpAddr::V4(r) => {
            let msg = if target_like { wire::build_icmp4_error(3, 3, &body) } else { wire::build_icmp4_error(11, te_code, &body) };
            (wire::wrap_ip4(r, host4, PROTO_ICMP, 61, 0, 0x7777, &[], &msg), responder)
        }
        IpAddr::V6(r) => {
            let msg = if target_like { wire::build_icmp6_error(1, 4, &body, r, host6) } else { wire::build_icmp6_error(3, te_code, &body, r, host6) };
            (msg, responder)
        }
    }
}

/// An echo reply (ICMP probes) naming an arbitrary identifier / sequence.
pub fn echo_reply(v6: bool, from: IpAddr, host4: Ipv4Addr, host6: Ipv6Addr, id: u16, seq: u16, payload_len: usize) -> Vec<u8> {
    let mut req = vec![if v6 { 128 } else { 8 }, 0, 0, 0];
    req.extend_from_slice(&id.to_be_bytes());
    req.extend_from_slice(&seq.to_be_bytes());
    req.extend(std::iter::repeat(0).take(payload_len));
    match from {
        IpAddr::V4(r) => wire::wrap_ip4(r, host4, PROTO_ICMP, 60, 0, 0x7778, &[], &wire::build_echo_reply(&req, None)),
        IpAddr::V6(r) => wire::build_echo_reply(&req, Some((r, host6))),
    }
}

pub fn truncate_quote(dgram: &[u8], v6: bool) -> Vec<u8> {
    // IPv4: header + 8..; IPv6: everything (<= 1232)
    if v6 {
        dgram[..dgram.len().min(1232)].to_vec()
    } else {
        dgram[..dgram.len().min(548)].to_vec()
    }
}

pub fn injected(delay_ns: u64, v6: bool, bytes: Vec<u8>, src: IpAddr, class: PktClass) -> Injected {
    Injected { delay_ns, v6, bytes, src, class }
}

pub fn proto_of(wp: &WirePacket) -> u8 {
    wp.proto
}

pub const ALL_PROTOS: [u8; 4] = [PROTO_ICMP, PROTO_ICMP6, PROTO_TCP, PROTO_UDP];

#[allow(dead_code)]
pub fn is_v6_dgram(b: &[u8]) -> bool {
    !b.is_empty() && b[0] >> 4 == 6 && Ip6::parse(b).is_ok()
}

/// Installs an adversary that answers some UDP / TCP probes with an ICMP echo reply (identifier 0
/// = "any", or the tracer's own) naming the sequence of the probe just sent: an echo reply is
/// never the response to a UDP or TCP probe.
pub fn install_echo_adversary(world: &std::sync::Arc<crate::world::World>, tcfg: &TraceCfg, one_in: u64) {
    if tcfg.protocol == trippy_core::Protocol::Icmp {
        return;
    }
    let (host4, host6) = {
        let w = world.inner.lock().unwrap();
        (w.cfg.host_v4, w.cfg.host_v6)
    };
    let tc = tcfg.clone();
    let v6 = tc.target.is_ipv6();
    let target = tc.target;
    world.inner.lock().unwrap().inject_on_send.push(Box::new(move |wp, r| {
        let mut out = Vec::new();
        if !r.chance(1, one_in) {
            return out;
        }
        let Some(seq) = get_sequence(&tc, &wp.bytes) else { return out };
        let id = if r.chance(1, 2) { 0 } else { tc.trace_id };
        let bytes = echo_reply(v6, target, host4, host6, id, seq, 8);
        out.push(injected(r.range(1_000, 400_000), v6, bytes, target, PktClass::Forged(crate::world::Forgery::OtherProto)));
        out
    }));
}
