mod clock;
mod prng;
mod sim;
mod wire;
mod world;

use std::net::{IpAddr, Ipv4Addr};
use world::*;

fn smoke() {
    let target = IpAddr::V4(Ipv4Addr::new(10, 9, 0, 1));
    let hops: Vec<HopSpec> = (1..=4u8)
        .map(|i| HopSpec::simple(IpAddr::V4(Ipv4Addr::new(10, 0, i, 1)), 1_000_000 * u64::from(i)))
        .collect();
    let topo = Topology {
        hops,
        target: HopSpec::simple(target, 7_000_000),
        tcp: TcpMode::SynAck,
    };
    let wcfg = WorldCfg {
        host_v4: Ipv4Addr::new(192, 168, 1, 2),
        host_v6: "fd00::2".parse().unwrap(),
        topo,
        adversary: Adversary::default(),
        faults: FaultPlan::default(),
        seed: 1,
        tracers: 1,
    };
    let tcfg = sim::TraceCfg::new(target);
    let t0 = clock::real_now_ns();
    let (world, r) = sim::run_single(wcfg, &tcfg, true).unwrap();
    let dt = clock::real_now_ns() - t0;
    println!("result={:?} rounds={} wall={}us", r.result, r.rounds.len(), dt / 1000);
    for round in &r.rounds {
        println!("round {} largest_ttl={} reason={:?} t={}", round.index, round.largest_ttl, round.reason, round.t_publish - clock::EPOCH_NS);
        for p in &round.probes {
            match p {
                trippy_core::ProbeStatus::Complete(c) => println!("  C ttl={} seq={} host={} rtt={:?} {:?}", c.ttl.0, c.sequence.0, c.host, c.received.duration_since(c.sent).unwrap(), c.icmp_packet_type),
                trippy_core::ProbeStatus::Awaited(a) => println!("  A ttl={} seq={}", a.ttl.0, a.sequence.0),
                other => println!("  {other:?}"),
            }
        }
    }
    let w = world.inner.lock().unwrap();
    println!("log entries={} wires={} pkts={}", w.log.len(), w.wires.len(), w.pkts.len());
}

fn main() {
    let args: Vec<String> = std::env::args().collect();
    match args.get(1).map(String::as_str) {
        Some("smoke") => smoke(),
        _ => eprintln!("usage: vcheck <cmd>"),
    }
}
