mod clock;
mod e2e;
mod forge;
mod framework;
mod mmdb;
mod prng;
mod oracles;
mod props;
mod reagg;
mod scen;
mod sim;
mod synth;
mod truth;
mod tui;
mod wire;
mod world;

use framework::Tier;

fn main() {
    let args: Vec<String> = std::env::args().collect();
    if args.get(1).map(String::as_str) == Some("__loop-child") {
        framework::install_panic_hook();
        std::process::exit(props::c17_loop::child_main(&args[2..]));
    }
    let Some(prop) = args.get(1).cloned() else {
        eprintln!("usage: vcheck <Cxx> [--tier quick|thorough] [--seed N] [--only I]");
        std::process::exit(2);
    };
    let mut tier = match std::env::var("VERIF_TIER").as_deref() {
        Ok("thorough") => Tier::Thorough,
        _ => Tier::Quick,
    };
    let mut seed: u64 = std::env::var("VERIF_SEED").ok().and_then(|s| s.parse().ok()).unwrap_or(1);
    let mut only: Option<String> = None;
    let mut i = 2;
    while i < args.len() {
        match args[i].as_str() {
            "--tier" => {
                tier = if args.get(i + 1).map(String::as_str) == Some("thorough") { Tier::Thorough } else { Tier::Quick };
                i += 1;
            }
            "--seed" => {
                seed = args.get(i + 1).and_then(|s| s.parse().ok()).unwrap_or(seed);
                i += 1;
            }
            "--only" => {
                only = args.get(i + 1).cloned();
                i += 1;
            }
            "--replay" => {
                // a replay file names the scenario index and seed
                if let Some(v) = args.get(i + 1).and_then(|p| std::fs::read_to_string(p).ok()).and_then(|s| serde_json::from_str::<serde_json::Value>(&s).ok()) {
                    seed = v.get("seed").and_then(serde_json::Value::as_u64).unwrap_or(seed);
                    only = v.pointer("/case/scenario").map(|x| x.as_str().map_or_else(|| x.to_string(), ToString::to_string));
                    if v.get("tier").and_then(serde_json::Value::as_str) == Some("thorough") {
                        tier = Tier::Thorough;
                    }
                }
                i += 1;
            }
            _ => {}
        }
        i += 1;
    }
    framework::install_panic_hook();
    let prop2 = prop.clone();
    let run = std::panic::catch_unwind(std::panic::AssertUnwindSafe(move || match prop.as_str() {
        "C01" => props::c01::run(tier, seed, only.and_then(|s| s.parse().ok())),
        "C02" => props::c02::run(tier, seed, only.and_then(|s| s.parse().ok())),
        "C03" => props::c03::run(tier, seed, only),
        "C08" => props::c08::run(tier, seed, only),
        "C09" => props::c09::run(tier, seed, only),
        "C10" => props::c10::run(tier, seed, only),
        "C11" => props::c11::run(tier, seed, only.and_then(|s| s.parse().ok())),
        "C16" => props::c16::run(tier, seed, only),
        "C17" => props::c17::run(tier, seed, only, props::c17::Which::Crash),
        "C18" => props::c17::run(tier, seed, only, props::c17::Which::Privacy),
        "C19" => props::c19::run(tier, seed, only.and_then(|s| s.parse().ok())),
        "C20" => props::c20::run(tier, seed, only.and_then(|s| s.parse().ok())),
        "C07" => props::c07::run(tier, seed, only),
        "C04" => props::c04::run(tier, seed, only),
        "C05" => props::c05::run(tier, seed, only.and_then(|s| s.parse().ok())),
        "C12" => props::c12::run(tier, seed, only.and_then(|s| s.parse().ok())),
        "C13" => props::c13::run(tier, seed, only),
        "C14" => props::c14::run(tier, seed, only.and_then(|s| s.parse().ok())),
        "C15" => props::c15::run(tier, seed, only),
        "C06" => props::c06::run(tier, seed, only.and_then(|s| s.parse().ok())),
        _ => {
            eprintln!("unknown property {prop}");
            2
        }
    }));
    let code = match run {
        Ok(c) => c,
        Err(_) => {
            // a panic escaped every guarded scope (e.g. on a worker thread)
            let p = framework::last_panic_anywhere();
            let (file, line, message) = p.as_ref().map_or(("<unknown>".to_string(), 0, "<unknown>".to_string()), |p| (p.file.clone(), p.line, p.message.clone()));
            if p.as_ref().is_some_and(framework::Panic::in_repo) {
                let dir = format!("{}/evidence/replay", framework::verif_dir());
                let _ = std::fs::create_dir_all(&dir);
                let path = format!("{dir}/{prop2}-{seed}-escaped-panic.json");
                let _ = std::fs::write(&path, serde_json::json!({"property": prop2, "seed": seed, "tier": tier.name(), "panic": {"file": file, "line": line, "message": message}, "how": format!("vcheck {prop2} --tier {} --seed {seed}", tier.name())}).to_string());
                println!("VIOLATION property={prop2} replay={path}");
                println!("  signature: no_panic|escaped|{}", p.as_ref().map(framework::Panic::site).unwrap_or_default());
                println!("  detail: the code under test panicked at {file}:{line}: {message}");
                1
            } else {
                println!("INCONCLUSIVE property={prop2} harness panic at {file}:{line}: {message}");
                2
            }
        }
    };
    std::process::exit(code);
}
