//! The end-to-end outcome oracle (C01's core, reused by C02, C03, C09): every published probe
//! status must equal what the ground truth log says happened to that probe.
use crate::framework::Outcome;
use crate::sim::{st_ns, PubRound, RunResult, TraceCfg};
use crate::truth::{dispatched_slots, Analysis, Group, ReadEv};
use crate::wire::ExtObject;
use crate::world::{Op, PktClass, RespKind, WorldInner};
use serde_json::{json, Value};
use trippy_core::{Extension, Extensions, IcmpExtensionParseMode, IcmpPacketType, ProbeStatus, Protocol};

/// What the ground truth says the status of a dispatched slot must be.
#[derive(Debug, Clone)]
pub enum Expected {
    Skipped,
    Failed,
    Awaited,
    Complete(ReadEv),
}

pub fn is_probe_failed_errno(proto: Protocol, v6: bool, raw: bool, op: Op, errno: i32) -> bool {
    // net/ipv4.rs + net/ipv6.rs: which error kinds are mapped to `Error::ProbeFailed`
    match (proto, v6, op) {
        (Protocol::Icmp, false, Op::SendTo) => matches!(errno, libc::EHOSTUNREACH | libc::ENETUNREACH | libc::EINVAL),
        (Protocol::Udp, false, Op::SendTo) if raw => matches!(errno, libc::EHOSTUNREACH | libc::ENETUNREACH),
        (Protocol::Udp | Protocol::Tcp, false, Op::Bind) => errno == libc::EADDRNOTAVAIL,
        (Protocol::Tcp, false, Op::Connect) => errno == libc::ENETUNREACH,
        _ => false,
    }
}

pub fn is_addr_in_use(proto: Protocol, op: Op, errno: i32, raw: bool) -> bool {
    // only the TCP arm of the strategy re-issues a probe; for (unprivileged) UDP an address in
    // use error ends the trace
    let _ = raw;
    errno == libc::EADDRINUSE && proto == Protocol::Tcp && matches!(op, Op::Bind | Op::Connect)
}

/// Compute the expected status of each dispatch group of a round.
pub fn expected_for_round(w: &WorldInner, tcfg: &TraceCfg, groups: &[Group], reads: &[ReadEv]) -> Vec<Expected> {
    let raw = tcfg.privilege == trippy_core::PrivilegeMode::Privileged;
    let v6 = tcfg.target.is_ipv6();
    groups
        .iter()
        .map(|g| {
            if let Some((op, errno)) = g.failed {
                if is_addr_in_use(tcfg.protocol, op, errno, raw) {
                    Expected::Skipped
                } else if is_probe_failed_errno(tcfg.protocol, v6, raw, op, errno) {
                    Expected::Failed
                } else {
                    // a fatal error: the round is never published
                    Expected::Awaited
                }
            } else if let Some(wid) = g.wire {
                let _ = w;
                reads
                    .iter()
                    .find(|r| r.wire == Some(wid) && matches!(r.class, PktClass::Genuine { .. } | PktClass::Late) && r.kind.is_some())
                    .map_or(Expected::Awaited, |r| Expected::Complete(r.clone()))
            } else {
                Expected::Awaited
            }
        })
        .collect()
}

fn kind_matches(k: RespKind, t: IcmpPacketType) -> bool {
    match (k, t) {
        (RespKind::TimeExceeded(c), IcmpPacketType::TimeExceeded(code)) => code.0 == c,
        (RespKind::DestUnreach(c), IcmpPacketType::Unreachable(code)) => code.0 == c,
        (RespKind::EchoReply, IcmpPacketType::EchoReply(code)) => code.0 == 0,
        (RespKind::TcpSynAck | RespKind::TcpRst, IcmpPacketType::NotApplicable) => true,
        _ => false,
    }
}

pub fn ext_matches(enc: &[ExtObject], got: Option<&Extensions>) -> bool {
    let Some(got) = got else { return false };
    if got.extensions.len() != enc.len() {
        return false;
    }
    enc.iter().zip(&got.extensions).all(|(e, g)| match g {
        Extension::Mpls(stack) => {
            e.class_num == 1
                && e.payload.len() == stack.members.len() * 4
                && e.payload.chunks(4).zip(&stack.members).all(|(b, m)| {
                    let w = u32::from_be_bytes([b[0], b[1], b[2], b[3]]);
                    m.label == w >> 12 && u32::from(m.exp) == (w >> 9) & 7 && u32::from(m.bos) == (w >> 8) & 1 && u32::from(m.ttl) == w & 0xff
                })
        }
        Extension::Unknown(u) => e.class_num != 1 && u.class_num == e.class_num && u.class_subtype == e.c_type && u.bytes == e.payload,
    })
}

pub fn status_name(p: &ProbeStatus) -> &'static str {
    match p {
        ProbeStatus::NotSent => "NotSent",
        ProbeStatus::Skipped => "Skipped",
        ProbeStatus::Failed(_) => "Failed",
        ProbeStatus::Awaited(_) => "Awaited",
        ProbeStatus::Complete(_) => "Complete",
    }
}

pub struct E2eOpts {
    /// Check extensions decoded in `ProbeComplete.extensions` against the encoded objects.
    pub check_ext: bool,
}

/// Check all published rounds of a run against ground truth.  `site` prefixes violation sites
/// (normally the configuration cell); `replay` identifies the scenario.
pub fn check_outcomes(w: &WorldInner, a: &Analysis, run: &RunResult, tcfg: &TraceCfg, o: &mut Outcome, site: &str, replay: &Value, opts: &E2eOpts) {
    let mut prev_last_seq: Option<u16> = None;
    for (ri, (round, rt)) in run.rounds.iter().zip(&a.rounds).enumerate() {
        let slots = dispatched_slots(round);
        o.hit("slots_equal_dispatches");
        if slots.len() != rt.groups.len() {
            o.violate(
                "slots_equal_dispatches",
                site,
                format!("round {ri}: {} published probe slots but {} dispatches on the wire", slots.len(), rt.groups.len()),
                replay.clone(),
            );
            continue;
        }
        // no NotSent slot may precede a dispatched slot
        if let Some(last) = slots.last() {
            if *last + 1 != slots.len() {
                o.violate("slots_contiguous", site, format!("round {ri}: NotSent slot inside the published range"), replay.clone());
            }
        }
        let expected = expected_for_round(w, tcfg, &rt.groups, &rt.reads);
        // TCP: a connection attempt that resolved (SYN-ACK / RST at the host) well inside the
        // connect timeout and well before the round was published must have been noticed - the
        // tracer polls its pending sockets once per loop iteration, i.e. at least once per read
        // timeout.  (Ground truth from the simulated kernel, independent of whether the tracer
        // polled.)
        if tcfg.protocol == Protocol::Tcp {
            let rt_ns = crate::sim::ns(tcfg.read_timeout).max(1_000_000);
            for ((&slot, g), exp) in slots.iter().zip(&rt.groups).zip(&expected) {
                let (Some(wid), Expected::Awaited) = (g.wire, exp) else { continue };
                let Some((at, kind)) = w.tcp_outcome_of_wire(wid) else { continue };
                if matches!(kind, crate::world::RespKind::TcpError(_)) {
                    continue;
                }
                let sent = w.wires[wid].t;
                let in_time = at.saturating_sub(sent) + 2 * rt_ns < crate::sim::ns(tcfg.tcp_connect_timeout);
                let before_publish = at + 3 * rt_ns < round.t_publish;
                if in_time && before_publish {
                    o.hit("tcp_outcome_inside_connect_timeout_is_reported");
                    if matches!(round.probes[slot], ProbeStatus::Awaited(_)) {
                        o.violate(
                            "tcp_outcome_inside_connect_timeout_is_reported",
                            site,
                            format!(
                                "round {ri} slot {slot}: the connection attempt resolved ({kind:?}) {}ns after the SYN (connect timeout {:?}) and {}ns before the round was published, but the probe is reported as awaited",
                                at - sent,
                                tcfg.tcp_connect_timeout,
                                round.t_publish - at
                            ),
                            replay.clone(),
                        );
                    }
                }
            }
        }
        let mut first_seq: Option<(usize, u16)> = None;
        for ((&slot, g), exp) in slots.iter().zip(&rt.groups).zip(&expected) {
            let st = &round.probes[slot];
            // common probe data
            let data = match st {
                ProbeStatus::Awaited(p) => Some((p.sequence.0, p.ttl.0, p.round.0, p.sent)),
                ProbeStatus::Complete(p) => Some((p.sequence.0, p.ttl.0, p.round.0, p.sent)),
                ProbeStatus::Failed(p) => Some((p.sequence.0, p.ttl.0, p.round.0, p.sent)),
                _ => None,
            };
            if let Some((seq, ttl, rnd, sent)) = data {
                o.hit("probe_identity");
                if rnd != ri {
                    o.violate("round_numbering", site, format!("round {ri} slot {slot}: probe carries round id {rnd}"), replay.clone());
                }
                match first_seq {
                    None => first_seq = Some((slot, seq)),
                    Some((s0, q0)) => {
                        if usize::from(seq.wrapping_sub(q0)) != slot - s0 {
                            o.violate("slot_is_sequence_offset", site, format!("round {ri} slot {slot}: sequence {seq} (slot {s0} has {q0})"), replay.clone());
                        }
                    }
                }
                // the send timestamp lies just before the dispatch
                let sent_ns = st_ns(sent);
                let before = w.log[..g.first].iter().rev().find(|e| e.tracer == w.log[g.first].tracer).map_or(0, |e| e.t);
                if !(sent_ns < g.t_first && sent_ns > before) {
                    o.violate(
                        "sent_timestamp",
                        site,
                        format!("round {ri} slot {slot}: sent={sent_ns} not in ({before}, {})", g.t_first),
                        replay.clone(),
                    );
                }
                // the ttl on the wire is the probe's ttl
                if let Some(wid) = g.wire {
                    if w.wires[wid].ttl != ttl {
                        o.violate("wire_ttl", site, format!("round {ri} slot {slot}: probe ttl {ttl} but wire ttl {}", w.wires[wid].ttl), replay.clone());
                    }
                }
            }
            // A late copy of a response to a probe of an earlier round which carried the very
            // sequence this probe carries (the 16 bit sequence space wrapped in between: with a
            // high initial sequence the rounds reuse the same numbers) is, to any observer of the
            // packet alone, a response to this probe: not judged.
            if let (ProbeStatus::Complete(c), Some(wid)) = (st, g.wire) {
                let rcv = crate::sim::st_ns(c.received);
                if let Some(rd) = rt.reads.iter().find(|r| r.t <= rcv && rcv <= r.t_next) {
                    if rd.class == PktClass::Late && rd.wire != Some(wid) {
                        let seq_of = |x: usize| crate::forge::get_sequence(tcfg, &w.wires[x].bytes);
                        if rd.wire.is_some_and(|old| seq_of(old).is_some() && seq_of(old) == seq_of(wid)) {
                            o.count("late_copies_naming_a_reused_sequence_not_judged", 1);
                            continue;
                        }
                    }
                }
            }
            match (exp, st) {
                (Expected::Skipped, ProbeStatus::Skipped) => o.hit("skipped_iff_addr_in_use"),
                (Expected::Failed, ProbeStatus::Failed(_)) => o.hit("failed_iff_send_failed"),
                (Expected::Awaited, ProbeStatus::Awaited(_)) => o.hit("awaited_iff_no_genuine_response"),
                (Expected::Complete(r), ProbeStatus::Complete(c)) => {
                    o.hit("complete_iff_genuine_response");
                    let kind = r.kind.unwrap();
                    let mut bad = Vec::new();
                    if c.host != r.src {
                        bad.push(format!("host {} != responder {}", c.host, r.src));
                    }
                    if !kind_matches(kind, c.icmp_packet_type) {
                        bad.push(format!("kind {:?} != {:?}", c.icmp_packet_type, kind));
                    }
                    let recv_ns = st_ns(c.received);
                    if !(recv_ns > r.t && recv_ns < r.t_next) {
                        bad.push(format!("received {recv_ns} not in first genuine read interval ({}, {})", r.t, r.t_next));
                    }
                    if let Some(pid) = r.pkt {
                        let pk = &w.pkts[pid];
                        if !matches!(kind, RespKind::EchoReply) {
                            if c.tos.map(|t| t.0) != pk.quoted_tos {
                                bad.push(format!("tos {:?} != quoted {:?}", c.tos, pk.quoted_tos));
                            }
                            if opts.check_ext && tcfg.ext_mode == IcmpExtensionParseMode::Enabled && !pk.ext.is_empty() && pk.bytes.len() <= 1024 {
                                o.hit("extensions_reported");
                                if !ext_matches(&pk.ext, c.extensions.as_ref()) {
                                    bad.push(format!("extensions {:?} != encoded {:?}", c.extensions, pk.ext));
                                }
                            }
                            if tcfg.ext_mode == IcmpExtensionParseMode::Disabled && c.extensions.is_some() {
                                bad.push("extensions reported although parsing is disabled".to_string());
                            }
                        }
                    }
                    if !bad.is_empty() {
                        o.violate("complete_fields", format!("{site}|{}", bad[0].split(' ').next().unwrap_or("")), format!("round {ri} slot {slot}: {}", bad.join("; ")), replay.clone());
                    }
                }
                (exp, st) => {
                    let en = match exp {
                        Expected::Skipped => "Skipped",
                        Expected::Failed => "Failed",
                        Expected::Awaited => "Awaited",
                        Expected::Complete(_) => "Complete",
                    };
                    let mut detail = match exp {
                        Expected::Complete(r) => format!("genuine {:?} from {} for wire {:?} was read at t={} (pkt {:?}, class {:?})", r.kind, r.src, r.wire, r.t, r.pkt, r.class),
                        _ => format!("dispatch {:?} wire {:?}", g.failed, g.wire),
                    };
                    // which packet did the tracer take for it?
                    if let ProbeStatus::Complete(c) = st {
                        let rcv = crate::sim::st_ns(c.received);
                        if let Some(rd) = rt.reads.iter().find(|r| r.t <= rcv && rcv <= r.t_next) {
                            detail.push_str(&format!("; completed by the packet read at t={} from {}: class {:?}, kind {:?}, answering wire {:?}", rd.t, rd.src, rd.class, rd.kind, rd.wire));
                        }
                    }
                    o.violate(
                        "status_matches_ground_truth",
                        format!("{site}|expected {en} got {}", status_name(st)),
                        format!("round {ri} slot {slot}: expected {en}, published {}; {detail}", status_name(st)),
                        replay.clone(),
                    );
                }
            }
        }
        if let (Some((_, q0)), Some(p)) = (first_seq, prev_last_seq) {
            let _ = (q0, p);
        }
        prev_last_seq = first_seq.map(|(_, q)| q);
    }
}

pub fn replay_of(prop: &str, seed: u64, scenario: usize, tcfg: &TraceCfg, topo: &crate::world::Topology) -> Value {
    json!({
        "how": format!("vcheck {prop} --seed {seed} --only {scenario}"),
        "scenario": scenario,
        "cell": tcfg.cell(),
        "config": format!("{tcfg:?}"),
        "topology": crate::scen::describe_topology(topo),
    })
}

pub fn round_brief(r: &PubRound) -> Value {
    json!({
        "round": r.index,
        "largest_ttl": r.largest_ttl,
        "reason": format!("{:?}", r.reason),
        "probes": r.probes.iter().map(|p| match p {
            ProbeStatus::Complete(c) => format!("C ttl={} seq={} host={} rtt_ns={}", c.ttl.0, c.sequence.0, c.host, c.received.duration_since(c.sent).map_or(0, |d| d.as_nanos())),
            ProbeStatus::Awaited(a) => format!("A ttl={} seq={}", a.ttl.0, a.sequence.0),
            ProbeStatus::Failed(f) => format!("F ttl={} seq={}", f.ttl.0, f.sequence.0),
            ProbeStatus::Skipped => "S".to_string(),
            ProbeStatus::NotSent => "N".to_string(),
        }).collect::<Vec<_>>(),
    })
}

/// Run a single tracer over a world, converting panics into violations / harness errors.
/// Returns `None` (with `o` filled in) if the scenario could not be observed.
pub fn run_guarded(
    wcfg: &crate::world::WorldCfg,
    tcfg: &TraceCfg,
    snapshots: bool,
    install: impl FnOnce(&std::sync::Arc<crate::world::World>),
    o: &mut Outcome,
    site: &str,
    replay: &Value,
    label: &str,
) -> Option<(std::sync::Arc<crate::world::World>, RunResult)> {
    let res = crate::framework::guarded(|| {
        let world = crate::world::World::new(wcfg.clone());
        install(&world);
        let tracer = tcfg.builder().build().map_err(|e| format!("build: {e}"))?;
        let r = crate::sim::run_tracer(&world, 0, &tracer, &crate::sim::RunOpts { snapshots });
        Ok::<_, String>((world, r))
    });
    match res {
        Err(p) if p.in_repo() => {
            o.violate("no_panic", format!("{site}|{}", p.site()), format!("panic at {}:{}: {}", p.file, p.line, p.message), replay.clone());
            None
        }
        Err(p) => {
            o.harness_error = Some(format!("{label}: harness panic at {}:{}: {}", p.file, p.line, p.message));
            None
        }
        Ok(Err(e)) => {
            o.harness_error = Some(format!("{label}: {e}"));
            None
        }
        Ok(Ok(x)) => {
            if x.0.inner.lock().unwrap().deadline_hit {
                o.violate(
                    "run_ends_within_virtual_time_budget",
                    site.to_string(),
                    format!("{label}: the tracer was still running after three times the virtual time its round limit allows ({} rounds published, limit {:?}, max-round {:?}, read timeout {:?}); it was stopped by failing its socket calls", x.1.rounds.len(), tcfg.max_rounds, tcfg.max_round, tcfg.read_timeout),
                    replay.clone(),
                );
                return None;
            }
            Some(x)
        }
    }
}
