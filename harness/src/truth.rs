//! Ground truth analysis: join what the tracer published with what the simulated world logged.
use crate::sim::{PubRound, RunResult};
use crate::world::{Ev, LogEntry, Op, PktClass, PktId, RespKind, WireId, WorldInner};
use std::net::IpAddr;
use trippy_core::verif::VerifSocketKind;

/// One dispatch of a probe: the group of socket calls trippy made to put it on the wire.
#[derive(Debug, Clone)]
pub struct Group {
    /// Log index of the first / last call in the group.
    pub first: usize,
    pub last: usize,
    pub t_first: u64,
    pub t_last: u64,
    /// The wire packet if the dispatch put one on the wire.
    pub wire: Option<WireId>,
    /// The failing call, if any: (op, errno).
    pub failed: Option<(Op, i32)>,
    /// TTL requested through socket options (non raw sockets).
    pub opt_ttl: Option<u32>,
    pub opt_tos: Option<u32>,
    pub bind: Option<std::net::SocketAddr>,
    pub connect: Option<std::net::SocketAddr>,
    pub sock: usize,
}

/// A response that the tracer read from a socket.
#[derive(Debug, Clone)]
pub struct ReadEv {
    pub log_idx: usize,
    pub t: u64,
    /// Time of the next logged event (the tracer's `received` timestamp lies in between).
    pub t_next: u64,
    pub pkt: Option<PktId>,
    pub wire: Option<WireId>,
    pub class: PktClass,
    pub kind: Option<RespKind>,
    pub src: IpAddr,
}

#[derive(Debug, Clone)]
pub struct RoundTruth {
    pub log_from: usize,
    pub log_to: usize,
    pub groups: Vec<Group>,
    pub reads: Vec<ReadEv>,
}

#[derive(Debug, Clone)]
pub struct Analysis {
    pub rounds: Vec<RoundTruth>,
    /// Groups and reads after the last published round (e.g. the run failed mid-round).
    pub tail: RoundTruth,
}

fn is_dispatch_op(e: &LogEntry) -> bool {
    matches!(e.op, Op::Bind | Op::SetTos | Op::SetTtl | Op::SetHops | Op::Connect | Op::SendTo)
}

fn per_probe_socket(k: &VerifSocketKind) -> bool {
    matches!(
        k,
        VerifSocketKind::StreamV4 | VerifSocketKind::StreamV6 | VerifSocketKind::UdpSendV4 { raw: false } | VerifSocketKind::UdpSendV6 { raw: false }
    )
}

/// Split the log range of one round into dispatch groups and reads.
fn analyse_range(w: &WorldInner, tracer: usize, from: usize, to: usize, t_end: u64, setup_done: &mut bool) -> RoundTruth {
    let mut groups: Vec<Group> = Vec::new();
    let mut reads = Vec::new();
    let mut cur: Option<Group> = None;
    let log = &w.log;
    let close = |cur: &mut Option<Group>, groups: &mut Vec<Group>| {
        if let Some(g) = cur.take() {
            // socket options alone on a shared send socket (nothing sent, nothing failed) are
            // not a dispatch
            let options_only = g.wire.is_none() && g.failed.is_none() && g.bind.is_none() && g.connect.is_none() && log[g.first].op != Op::NewSocket;
            if !options_only {
                groups.push(g);
            }
        }
    };
    let mut i = from;
    while i < to {
        let e = &log[i];
        if e.tracer != tracer {
            i += 1;
            continue;
        }
        // the channel setup (send / recv socket creation, source address discovery) precedes the
        // first is_readable / is_writable call and is not a probe dispatch
        if !*setup_done {
            // `Channel::connect` creates the receive socket last
            if let Ev::NewSocket { kind: VerifSocketKind::RecvV4 { .. } | VerifSocketKind::RecvV6 { .. } } = &e.ev {
                *setup_done = true;
            }
            i += 1;
            continue;
        }
        match (&e.ev, e.op) {
            (Ev::NewSocket { kind }, _) if per_probe_socket(kind) => {
                close(&mut cur, &mut groups);
                cur = Some(Group {
                    first: i,
                    last: i,
                    t_first: e.t,
                    t_last: e.t,
                    wire: None,
                    failed: e.err.map(|x| (Op::NewSocket, x)),
                    opt_ttl: None,
                    opt_tos: None,
                    bind: None,
                    connect: None,
                    sock: e.sock,
                });
            }
            (_, _) if is_dispatch_op(e) => {
                let per_probe = cur.as_ref().is_some_and(|g| g.sock == e.sock && g.wire.is_none() && g.failed.is_none());
                if !per_probe {
                    // shared raw send socket: a group is [SetHops] SendTo
                    let continue_hops = cur.as_ref().is_some_and(|g| g.sock == e.sock && g.wire.is_none() && g.failed.is_none());
                    if !continue_hops {
                        close(&mut cur, &mut groups);
                        cur = Some(Group {
                            first: i,
                            last: i,
                            t_first: e.t,
                            t_last: e.t,
                            wire: None,
                            failed: None,
                            opt_ttl: None,
                            opt_tos: None,
                            bind: None,
                            connect: None,
                            sock: e.sock,
                        });
                    }
                }
                let g = cur.as_mut().unwrap();
                g.last = i;
                g.t_last = e.t;
                match &e.ev {
                    Ev::SetTtl { ttl } => g.opt_ttl = Some(*ttl),
                    Ev::SetHops { hops } => g.opt_ttl = Some(u32::from(*hops)),
                    Ev::SetTos { tos } => g.opt_tos = Some(*tos),
                    Ev::Bind { addr } => g.bind = Some(*addr),
                    Ev::Connect { addr, wire } => {
                        g.connect = Some(*addr);
                        g.wire = *wire;
                    }
                    Ev::SendTo { wire, .. } => g.wire = *wire,
                    _ => {}
                }
                if let Some(errno) = e.err {
                    let in_progress = e.op == Op::Connect && errno == libc::EINPROGRESS;
                    if !in_progress && g.failed.is_none() {
                        g.failed = Some((e.op, errno));
                    }
                }
                if g.wire.is_some() || g.failed.is_some() {
                    close(&mut cur, &mut groups);
                }
            }
            (Ev::Read { pkt: Some(p), .. } | Ev::RecvFrom { pkt: Some(p), .. }, _) => {
                close(&mut cur, &mut groups);
                let pk = &w.pkts[*p];
                let t_next = log[i + 1..].iter().find(|x| x.tracer == tracer).map_or(t_end, |x| x.t);
                reads.push(ReadEv {
                    log_idx: i,
                    t: e.t,
                    t_next,
                    pkt: Some(*p),
                    wire: pk.wire,
                    class: pk.class.clone(),
                    kind: pk.kind,
                    src: pk.src,
                });
            }
            // (a connection attempt that failed with another error is not a response)
            (Ev::TakeError { outcome: Some(k), wire }, _) if !matches!(k, RespKind::TcpError(_)) => {
                close(&mut cur, &mut groups);
                let dst = wire.map(|wid| w.wires[wid].dst);
                // trippy stamps the response after take_error (refused) or after
                // take_error + peer_addr + shutdown (connected)
                let mut j = i;
                if *k == RespKind::TcpSynAck {
                    while j + 1 < log.len() && (log[j + 1].tracer != tracer || matches!(log[j + 1].op, Op::PeerAddr | Op::Shutdown)) {
                        j += 1;
                    }
                }
                let t_prev = log[i..=j].iter().filter(|x| x.tracer == tracer).map(|x| x.t).max().unwrap_or(e.t);
                let t_next = log[j + 1..].iter().find(|x| x.tracer == tracer).map_or(t_end, |x| x.t);
                reads.push(ReadEv {
                    log_idx: i,
                    t: t_prev,
                    t_next,
                    pkt: None,
                    wire: *wire,
                    class: PktClass::Genuine { copy: 0 },
                    kind: Some(*k),
                    src: dst.unwrap_or(IpAddr::V4(std::net::Ipv4Addr::UNSPECIFIED)),
                });
            }
            _ => {
                close(&mut cur, &mut groups);
            }
        }
        i += 1;
    }
    close(&mut cur, &mut groups);
    RoundTruth {
        log_from: from,
        log_to: to,
        groups,
        reads,
    }
}

pub fn analyse(w: &WorldInner, tracer: usize, run: &RunResult) -> Analysis {
    let mut rounds = Vec::new();
    let mut from = 0;
    let mut setup_done = false;
    for r in &run.rounds {
        rounds.push(analyse_range(w, tracer, from, r.log_len, r.t_publish, &mut setup_done));
        from = r.log_len;
    }
    let tail = analyse_range(w, tracer, from, w.log.len(), run.t_end, &mut setup_done);
    Analysis { rounds, tail }
}

/// The slots of a published round that correspond to a dispatch (everything except `NotSent`).
pub fn dispatched_slots(r: &PubRound) -> Vec<usize> {
    r.probes
        .iter()
        .enumerate()
        .filter(|(_, p)| !matches!(p, trippy_core::ProbeStatus::NotSent))
        .map(|(i, _)| i)
        .collect()
}
