//! Oracles over the ground-truth analysis: scheduling discipline (C06), round timing (C08),
//! progress bookkeeping (C03 / C10), sequence numbers (C07), wire format (C11), NAT (C19).
use crate::e2e::{expected_for_round, Expected};
use crate::framework::Outcome;
use crate::sim::{ns, RunResult, TraceCfg};
use crate::truth::{Analysis, Group, ReadEv};
use crate::world::{RespKind, WorldInner};
use serde_json::Value;
use trippy_core::CompletionReason;

/// A genuine response that, by ground truth, completes a probe of the current round.
#[derive(Debug, Clone)]
pub struct Accepted {
    pub read: ReadEv,
    pub group_idx: usize,
    pub ttl: u8,
    pub is_target: bool,
}

pub fn is_target_response(r: &ReadEv, tcfg: &TraceCfg) -> bool {
    match r.kind {
        Some(RespKind::EchoReply | RespKind::TcpSynAck | RespKind::TcpRst) => true,
        Some(RespKind::TimeExceeded(_) | RespKind::DestUnreach(_)) => r.src == tcfg.target,
        Some(RespKind::TcpError(_)) | None => false,
    }
}

/// The accepted responses of one round in read order.
pub fn accepted_in_round(w: &WorldInner, tcfg: &TraceCfg, groups: &[Group], reads: &[ReadEv]) -> Vec<Accepted> {
    let exp = expected_for_round(w, tcfg, groups, reads);
    let mut v: Vec<Accepted> = exp
        .iter()
        .enumerate()
        .filter_map(|(gi, e)| match e {
            Expected::Complete(r) => Some(Accepted {
                read: r.clone(),
                group_idx: gi,
                ttl: groups[gi].wire.map_or(0, |wid| w.wires[wid].ttl),
                is_target: is_target_response(r, tcfg),
            }),
            _ => None,
        })
        .collect();
    v.sort_by_key(|a| a.read.log_idx);
    v
}

/// TTL of each dispatch group of a round, as put on the wire (or requested by socket option).
pub fn group_ttl(w: &WorldInner, g: &Group) -> Option<u8> {
    g.wire.map(|wid| w.wires[wid].ttl).or(g.opt_ttl.map(|t| t as u8))
}

/// Independent model of the strategy's progress bookkeeping, fed with ground truth only.
#[derive(Debug, Clone, Default)]
pub struct BookModel {
    pub target_ttl: Option<u8>,
    pub max_recv: Option<u8>,
    pub target_found: bool,
    pub last_recv_t: Option<u64>,
}

impl BookModel {
    pub fn new_round(&mut self) {
        self.max_recv = None;
        self.target_found = false;
        self.last_recv_t = None;
    }
    pub fn accept(&mut self, a: &Accepted) {
        self.target_ttl = if a.is_target {
            Some(self.target_ttl.map_or(a.ttl, |t| t.min(a.ttl)))
        } else {
            match self.target_ttl {
                Some(t) if a.ttl >= t => None,
                other => other,
            }
        };
        self.max_recv = Some(self.max_recv.map_or(a.ttl, |m| m.max(a.ttl)));
        self.target_found |= a.is_target;
        self.last_recv_t = Some(a.read.t);
    }
    pub fn largest_ttl(&self, highest_sent: u8) -> u8 {
        match self.target_ttl {
            Some(t) => t,
            None => self.max_recv.map_or(0, |m| highest_sent.min(m.saturating_add(1))),
        }
    }
}

pub struct RoundView<'a> {
    pub idx: usize,
    pub groups: &'a [Group],
    pub accepted: Vec<Accepted>,
    pub ttls: Vec<Option<u8>>,
}

pub fn round_views<'a>(w: &WorldInner, a: &'a Analysis, tcfg: &TraceCfg) -> Vec<RoundView<'a>> {
    a.rounds
        .iter()
        .enumerate()
        .map(|(idx, rt)| RoundView {
            idx,
            groups: &rt.groups,
            accepted: accepted_in_round(w, tcfg, &rt.groups, &rt.reads),
            ttls: rt.groups.iter().map(|g| group_ttl(w, g)).collect(),
        })
        .collect()
}

/// C03 / C10: completion reason and path length must follow from genuine accepted responses only.
pub fn check_bookkeeping(w: &WorldInner, a: &Analysis, run: &RunResult, tcfg: &TraceCfg, o: &mut Outcome, site: &str, replay: &Value) {
    let views = round_views(w, a, tcfg);
    let mut m = BookModel::default();
    for (round, v) in run.rounds.iter().zip(&views) {
        m.new_round();
        for acc in &v.accepted {
            m.accept(acc);
        }
        // the highest ttl attempted in the round: a probe whose send failed still occupies its
        // hop (its ttl is only known from the published slot when nothing reached the wire)
        let attempted = round.probes.iter().filter_map(|p| match p {
            ProbeStatus::Failed(f) => Some(f.ttl.0),
            _ => None,
        });
        let highest_sent = v.ttls.iter().flatten().copied().chain(attempted).max().unwrap_or(tcfg.first_ttl.saturating_sub(1));
        o.hit("reason_iff_genuine_target_response");
        let want_reason = if m.target_found { CompletionReason::TargetFound } else { CompletionReason::RoundTimeLimitExceeded };
        if round.reason != want_reason {
            o.violate(
                "reason_iff_genuine_target_response",
                site,
                format!("round {}: reason {:?} but genuine target response accepted = {}", v.idx, round.reason, m.target_found),
                replay.clone(),
            );
        }
        o.hit("largest_ttl_from_genuine_responses");
        let want = m.largest_ttl(highest_sent);
        if round.largest_ttl != want {
            o.violate(
                "largest_ttl_from_genuine_responses",
                site,
                format!("round {}: largest_ttl {} but genuine responses imply {} (target_ttl {:?}, max responder ttl {:?}, highest sent {})", v.idx, round.largest_ttl, want, m.target_ttl, m.max_recv, highest_sent),
                replay.clone(),
            );
        }
    }
}

/// C06: the scheduling discipline.
pub fn check_scheduling(w: &WorldInner, a: &Analysis, run: &RunResult, tcfg: &TraceCfg, o: &mut Outcome, site: &str, replay: &Value, stable_distance: Option<u8>) {
    let views = round_views(w, a, tcfg);
    let mut m = BookModel::default();
    let raw = tcfg.privilege == trippy_core::PrivilegeMode::Privileged;
    // the instant (log index) at which the target's true distance became established
    let mut established: Option<usize> = None;
    for (ri, v) in views.iter().enumerate() {
        if ri >= run.rounds.len() {
            break;
        }
        m.new_round();
        o.hit("every_round_sends_first_ttl");
        match v.ttls.first() {
            None => o.violate("every_round_sends_first_ttl", site, format!("round {ri}: no probe was sent"), replay.clone()),
            Some(Some(t)) if *t != tcfg.first_ttl => {
                o.violate("every_round_sends_first_ttl", site, format!("round {ri}: first probe has ttl {t}, first-ttl is {}", tcfg.first_ttl), replay.clone());
            }
            _ => {}
        }
        let mut next_acc = 0usize;
        let mut expect_ttl = tcfg.first_ttl;
        for (gi, g) in v.groups.iter().enumerate() {
            // feed the model with everything accepted before this send
            while next_acc < v.accepted.len() && v.accepted[next_acc].read.log_idx < g.first {
                m.accept(&v.accepted[next_acc]);
                next_acc += 1;
            }
            let Some(ttl) = v.ttls[gi] else {
                // dispatch failed before the ttl was set: a re-issue keeps the ttl
                if !g.failed.is_some_and(|(op, e)| crate::e2e::is_addr_in_use(tcfg.protocol, op, e, raw)) {
                    expect_ttl = expect_ttl.saturating_add(1);
                }
                continue;
            };
            o.hit("ttl_order_no_gaps");
            if ttl != expect_ttl {
                o.violate("ttl_order_no_gaps", site, format!("round {ri} send {gi}: ttl {ttl}, expected {expect_ttl}"), replay.clone());
                expect_ttl = ttl;
            }
            let reissue = g.failed.is_some_and(|(op, e)| crate::e2e::is_addr_in_use(tcfg.protocol, op, e, raw));
            if !reissue {
                expect_ttl = expect_ttl.saturating_add(1);
            }
            o.hit("never_above_max_ttl");
            if ttl > tcfg.max_ttl {
                o.violate("never_above_max_ttl", site, format!("round {ri} send {gi}: ttl {ttl} > max-ttl {}", tcfg.max_ttl), replay.clone());
            }
            o.hit("no_send_after_target_answered");
            if m.target_found {
                o.violate("no_send_after_target_answered", site, format!("round {ri} send {gi}: ttl {ttl} sent after the target answered in this round"), replay.clone());
            }
            if let (Some(d), Some(est)) = (stable_distance, established) {
                o.hit("never_above_established_distance");
                if g.first > est && ttl > d {
                    o.violate("never_above_established_distance", site, format!("round {ri} send {gi}: ttl {ttl} > target distance {d} established earlier"), replay.clone());
                }
            }
            if m.target_ttl.is_none() {
                o.hit("inflight_window");
                let far = m.max_recv.unwrap_or(tcfg.first_ttl.saturating_sub(1));
                if i32::from(ttl) - i32::from(far) > i32::from(tcfg.max_inflight) {
                    o.violate(
                        "inflight_window",
                        site,
                        format!("round {ri} send {gi}: ttl {ttl} is more than max-inflight {} beyond the farthest responder {far}", tcfg.max_inflight),
                        replay.clone(),
                    );
                }
            }
        }
        while next_acc < v.accepted.len() {
            m.accept(&v.accepted[next_acc]);
            next_acc += 1;
        }
        if let Some(d) = stable_distance {
            if established.is_none() {
                if let Some(acc) = v.accepted.iter().find(|x| x.is_target && x.ttl == d) {
                    established = Some(acc.read.log_idx);
                }
            }
        }
    }
}

/// C08: rounds end exactly when the timing policy says.
pub fn check_timing(w: &WorldInner, a: &Analysis, run: &RunResult, tcfg: &TraceCfg, o: &mut Outcome, site: &str, replay: &Value, t_start: u64) {
    check_timing_for(w, 0, a, run, tcfg, o, site, replay, t_start);
}

#[allow(clippy::too_many_arguments)]
pub fn check_timing_for(w: &WorldInner, tracer: usize, a: &Analysis, run: &RunResult, tcfg: &TraceCfg, o: &mut Outcome, site: &str, replay: &Value, t_start: u64) {
    let views = round_views(w, a, tcfg);
    let (min, max, grace, rt) = (ns(tcfg.min_round), ns(tcfg.max_round), ns(tcfg.grace), ns(tcfg.read_timeout));
    let slack = 10_000; // ns of clock ticks
    let mut prev_pub = t_start;
    for (round, v) in run.rounds.iter().zip(&views) {
        let ri = v.idx;
        let dur_hi = round.t_publish - prev_pub;
        let target_acc: Vec<&Accepted> = v.accepted.iter().filter(|x| x.is_target).collect();
        let target_found = !target_acc.is_empty();
        let last_recv = v.accepted.iter().map(|x| x.read.t).max();
        let by_max = dur_hi > max;
        let by_target = target_found && dur_hi > min && last_recv.is_some_and(|t| round.t_publish - t > grace);
        o.hit("published_only_when_policy_allows");
        let case = format!(
            "target={} min={} grace={} max={}",
            u8::from(target_found),
            u8::from(dur_hi > min),
            u8::from(last_recv.is_some_and(|t| round.t_publish - t > grace)),
            u8::from(by_max)
        );
        o.observe("timing_cases", case.clone());
        if !(by_max || by_target) {
            o.violate(
                "published_only_when_policy_allows",
                site,
                format!("round {ri}: published after {dur_hi}ns ({case}); min {min} max {max} grace {grace}; last response {:?}", last_recv.map(|t| round.t_publish - t)),
                replay.clone(),
            );
        }
        o.hit("reason_tells_which");
        let want = if target_found { CompletionReason::TargetFound } else { CompletionReason::RoundTimeLimitExceeded };
        if round.reason != want {
            o.violate("reason_tells_which", site, format!("round {ri}: reason {:?}, target answered = {target_found}", round.reason), replay.clone());
        }
        if round.reason == CompletionReason::RoundTimeLimitExceeded && !by_max {
            o.violate("reason_tells_which", format!("{site}|time-limit-before-max"), format!("round {ri}: time limit reason after {dur_hi}ns <= max {max}"), replay.clone());
        }
        o.hit("never_held_longer_than_max_plus_read_timeout");
        // lower bound of the duration: from the first event of the round
        let first_ev = w.log[a.rounds[ri].log_from..a.rounds[ri].log_to].iter().find(|e| e.t > prev_pub).map_or(round.t_publish, |e| e.t);
        let dur_lo = round.t_publish.saturating_sub(first_ev);
        if dur_lo > max + rt + slack {
            o.violate(
                "never_held_longer_than_max_plus_read_timeout",
                site,
                format!("round {ri}: open for at least {dur_lo}ns > max {max} + read timeout {rt}"),
                replay.clone(),
            );
        }
        // promptness ("rounds end exactly when the policy says"): the policy is evaluated once per
        // loop iteration, after the receive step.  If, at the end of the receive step of an
        // iteration, the policy computed from the genuine accepted responses alone already held
        // (with slack for clock ticks), that iteration must have published the round - there
        // must be no further wait on the receive socket in this round.
        {
            let rt_ = &a.rounds[ri];
            let waits: Vec<&crate::world::LogEntry> = w.log[rt_.log_from..rt_.log_to].iter().filter(|e| e.tracer == tracer && e.op == crate::world::Op::IsReadable && e.err.is_none()).collect();
            for pair in waits.windows(2) {
                let (this, next) = (pair[0], pair[1]);
                let t_ret = match &this.ev {
                    crate::world::Ev::IsReadable { t_ret, .. } => *t_ret,
                    _ => this.t,
                };
                // the wait of the next iteration must belong to this round's loop (after set-up)
                if this.t < prev_pub {
                    continue;
                }
                let upto: Vec<&Accepted> = v.accepted.iter().filter(|x| x.read.log_idx < next.idx).collect();
                let e_i = upto.iter().filter(|x| x.read.log_idx > this.idx).map(|x| x.read.t).fold(t_ret, u64::max);
                let found = upto.iter().any(|x| x.is_target);
                let last = upto.iter().map(|x| x.read.t).max();
                let dur = e_i.saturating_sub(prev_pub);
                let by_max_i = dur > max + slack;
                let by_target_i = found && dur > min + slack && last.is_some_and(|t| e_i.saturating_sub(t) > grace + slack);
                o.hit("published_as_soon_as_policy_allows");
                if by_max_i || by_target_i {
                    o.violate(
                        "published_as_soon_as_policy_allows",
                        site,
                        format!(
                            "round {ri}: {dur}ns into the round the policy already held (target answered = {found}, last genuine response {:?}ns earlier; min {min} max {max} grace {grace}) but the round was kept open for another wait on the receive socket",
                            last.map(|t| e_i.saturating_sub(t))
                        ),
                        replay.clone(),
                    );
                    break;
                }
            }
        }
        // the next round starts at the instant this one is published
        if ri + 1 < run.rounds.len() {
            if let Some(g) = a.rounds[ri + 1].groups.first() {
                o.hit("next_round_starts_at_publish");
                if g.t_first - round.t_publish > slack {
                    o.violate(
                        "next_round_starts_at_publish",
                        site,
                        format!("round {}: first send {}ns after the previous round was published", ri + 1, g.t_first - round.t_publish),
                        replay.clone(),
                    );
                }
            }
        }
        prev_pub = round.t_publish;
    }
}

/// The instant the tracer's loop started: the last channel setup call.
pub fn loop_start(w: &WorldInner, tracer: usize) -> u64 {
    w.log
        .iter()
        .filter(|e| e.tracer == tracer)
        .find(|e| matches!(&e.ev, crate::world::Ev::NewSocket { kind: trippy_core::verif::VerifSocketKind::RecvV4 { .. } | trippy_core::verif::VerifSocketKind::RecvV6 { .. } }))
        .map_or(crate::clock::EPOCH_NS, |e| e.t)
}

// ------------------------------------------------------------------------------------------------
// C11: every probe put on the wire is well-formed and as configured

use crate::wire::{self, Ip4, Ip6, Udp, PROTO_ICMP, PROTO_ICMP6, PROTO_TCP, PROTO_UDP};
use trippy_core::{MultipathStrategy, PortDirection, ProbeStatus, Protocol};

fn probe_fields(p: &ProbeStatus) -> Option<(u16, u8, u16, u16, u16)> {
    match p {
        ProbeStatus::Awaited(x) => Some((x.sequence.0, x.ttl.0, x.src_port.0, x.dest_port.0, x.identifier.0)),
        ProbeStatus::Complete(x) => Some((x.sequence.0, x.ttl.0, x.src_port.0, x.dest_port.0, x.identifier.0)),
        ProbeStatus::Failed(x) => Some((x.sequence.0, x.ttl.0, x.src_port.0, x.dest_port.0, x.identifier.0)),
        _ => None,
    }
}

pub fn check_wire(w: &WorldInner, a: &Analysis, run: &RunResult, tcfg: &TraceCfg, o: &mut Outcome, site: &str, replay: &Value) {
    let v6 = tcfg.target.is_ipv6();
    let raw = tcfg.privilege == trippy_core::PrivilegeMode::Privileged;
    let host: std::net::IpAddr = if v6 { w.cfg.host_v6.into() } else { w.cfg.host_v4.into() };
    for (round, rt) in run.rounds.iter().zip(&a.rounds) {
        let slots = crate::truth::dispatched_slots(round);
        if slots.len() != rt.groups.len() {
            // (C01's slots_equal_dispatches clause judges this; here the join cannot be made)
            o.count("rounds_not_joined_slots_differ_from_dispatches", 1);
            continue;
        }
        for (&slot, g) in slots.iter().zip(&rt.groups) {
            let Some(wid) = g.wire else { continue };
            let Some((seq, ttl, _sp, _dp, ident)) = probe_fields(&round.probes[slot]) else { continue };
            let wp = &w.wires[wid];
            let mut bad: Vec<(&'static str, String)> = Vec::new();
            o.hit("wire_packet_decodes");
            // ---- network layer
            let transport: Vec<u8>;
            if v6 {
                let ip = match Ip6::parse(&wp.bytes) {
                    Ok(ip) => ip,
                    Err(e) => {
                        o.violate("wire_packet_decodes", site, format!("round {} slot {slot}: {e}", round.index), replay.clone());
                        continue;
                    }
                };
                if ip.hop_limit != ttl {
                    bad.push(("hop_limit", format!("hop limit {} != probe ttl {ttl}", ip.hop_limit)));
                }
                if std::net::IpAddr::V6(ip.dst) != tcfg.target {
                    bad.push(("destination", format!("dst {} != target {}", ip.dst, tcfg.target)));
                }
                if usize::from(ip.payload_len) != ip.payload.len() {
                    bad.push(("length", format!("payload length {} != {}", ip.payload_len, ip.payload.len())));
                }
                let want_next = match tcfg.protocol {
                    Protocol::Icmp => PROTO_ICMP6,
                    Protocol::Udp => PROTO_UDP,
                    Protocol::Tcp => PROTO_TCP,
                };
                if ip.next != want_next {
                    bad.push(("protocol", format!("next header {} != {want_next}", ip.next)));
                }
                if ip.src != w.cfg.host_v6 {
                    bad.push(("source", format!("src {} != source address {host}", ip.src)));
                }
                transport = ip.payload;
            } else {
                // what trippy handed to the socket (raw) or what the kernel built from the options
                let buf = if raw || tcfg.protocol == Protocol::Icmp { wp.sent_buf.as_ref().unwrap_or(&wp.bytes) } else { &wp.bytes };
                let ip = match Ip4::parse(buf) {
                    Ok(ip) => ip,
                    Err(e) => {
                        o.violate("wire_packet_decodes", site, format!("round {} slot {slot}: {e}", round.index), replay.clone());
                        continue;
                    }
                };
                if ip.ihl != 5 {
                    bad.push(("ihl", format!("ihl {}", ip.ihl)));
                }
                if usize::from(ip.total_len) != buf.len() {
                    bad.push(("length", format!("total length {} != {} octets handed to the socket", ip.total_len, buf.len())));
                }
                if ip.flags_frag != 0x4000 {
                    bad.push(("dont_fragment", format!("flags/fragment {:#06x} (want DF only)", ip.flags_frag)));
                }
                if ip.ttl != ttl {
                    bad.push(("ttl", format!("ttl {} != probe ttl {ttl}", ip.ttl)));
                }
                if ip.tos != tcfg.tos {
                    bad.push(("tos", format!("tos {:#04x} != configured {:#04x}", ip.tos, tcfg.tos)));
                }
                if std::net::IpAddr::V4(ip.dst) != tcfg.target {
                    bad.push(("destination", format!("dst {} != target {}", ip.dst, tcfg.target)));
                }
                if std::net::IpAddr::V4(ip.src) != host {
                    bad.push(("source", format!("src {} != source address {host}", ip.src)));
                }
                let want_proto = match tcfg.protocol {
                    Protocol::Icmp => PROTO_ICMP,
                    Protocol::Udp => PROTO_UDP,
                    Protocol::Tcp => PROTO_TCP,
                };
                if ip.proto != want_proto {
                    bad.push(("protocol", format!("protocol {} != {want_proto}", ip.proto)));
                }
                transport = ip.payload;
            }
            let total = if v6 { 40 + transport.len() } else { 20 + transport.len() };
            // ---- transport layer
            match tcfg.protocol {
                Protocol::Icmp => {
                    o.hit("icmp_probe_fields");
                    if transport.len() < 8 {
                        bad.push(("icmp", "short icmp message".into()));
                    } else {
                        let want_type = if v6 { 128 } else { 8 };
                        if transport[0] != want_type || transport[1] != 0 {
                            bad.push(("icmp_type", format!("type {} code {}", transport[0], transport[1])));
                        }
                        let ok = if v6 { wire::transport_csum_ok(host, tcfg.target, PROTO_ICMP6, &transport) } else { wire::ones_sum(&[&transport]) == 0xffff };
                        if !ok {
                            bad.push(("icmp_checksum", "icmp checksum does not verify".into()));
                        }
                        let id = u16::from_be_bytes([transport[4], transport[5]]);
                        let s = u16::from_be_bytes([transport[6], transport[7]]);
                        if id != tcfg.trace_id || id != ident {
                            bad.push(("icmp_identifier", format!("identifier {id} != trace id {}", tcfg.trace_id)));
                        }
                        if s != seq {
                            bad.push(("sequence", format!("icmp sequence {s} != probe sequence {seq}")));
                        }
                        if total != usize::from(tcfg.packet_size) {
                            bad.push(("packet_size", format!("datagram of {total} octets != packet size {}", tcfg.packet_size)));
                        }
                        if transport[8..].iter().any(|b| *b != tcfg.payload_pattern) {
                            bad.push(("payload_pattern", "payload is not the configured pattern".into()));
                        }
                    }
                }
                Protocol::Udp => {
                    o.hit("udp_probe_fields");
                    match Udp::parse(&transport) {
                        Err(e) => bad.push(("udp", e)),
                        Ok(u) => {
                            if usize::from(u.len) != transport.len() {
                                bad.push(("length", format!("udp length {} != {}", u.len, transport.len())));
                            }
                            if !wire::transport_csum_ok(host, tcfg.target, PROTO_UDP, &transport) {
                                bad.push(("udp_checksum", format!("udp checksum {:#06x} does not verify", u.csum)));
                            }
                            if let Some(s) = crate::forge::get_sequence(tcfg, if v6 { &wp.bytes } else { wp.sent_buf.as_ref().filter(|_| raw).unwrap_or(&wp.bytes) }) {
                                if s != seq && !(tcfg.privilege != trippy_core::PrivilegeMode::Privileged && tcfg.strategy != MultipathStrategy::Classic) {
                                    bad.push(("sequence", format!("sequence field carries {s}, probe sequence is {seq}")));
                                }
                            }
                            match tcfg.ports {
                                PortDirection::FixedSrc(p) if u.sport != p.0 => bad.push(("ports", format!("src port {} != fixed {}", u.sport, p.0))),
                                PortDirection::FixedDest(p) if u.dport != p.0 => bad.push(("ports", format!("dest port {} != fixed {}", u.dport, p.0))),
                                PortDirection::FixedBoth(s, d) if u.sport != s.0 || u.dport != d.0 => bad.push(("ports", format!("ports {}->{} != fixed {}->{}", u.sport, u.dport, s.0, d.0))),
                                _ => {}
                            }
                            let sized = tcfg.strategy == MultipathStrategy::Classic || (tcfg.strategy == MultipathStrategy::Dublin && !v6);
                            if sized {
                                if total != usize::from(tcfg.packet_size) {
                                    bad.push(("packet_size", format!("datagram of {total} octets != packet size {}", tcfg.packet_size)));
                                }
                                if u.payload.iter().any(|b| *b != tcfg.payload_pattern) {
                                    bad.push(("payload_pattern", "payload is not the configured pattern".into()));
                                }
                            }
                        }
                    }
                }
                Protocol::Tcp => {
                    o.hit("tcp_probe_fields");
                    let ports = wire::tcp_ports(&transport);
                    let (sp, dp) = ports.unwrap_or((0, 0));
                    let s = match tcfg.ports {
                        PortDirection::FixedSrc(_) => dp,
                        _ => sp,
                    };
                    if s != seq {
                        bad.push(("sequence", format!("port carries {s}, probe sequence is {seq}")));
                    }
                    match tcfg.ports {
                        PortDirection::FixedSrc(p) if sp != p.0 => bad.push(("ports", format!("src port {sp} != fixed {}", p.0))),
                        PortDirection::FixedDest(p) if dp != p.0 => bad.push(("ports", format!("dest port {dp} != fixed {}", p.0))),
                        _ => {}
                    }
                    if g.connect.map(|a| a.ip()) != Some(tcfg.target) {
                        bad.push(("destination", format!("connect address {:?}", g.connect)));
                    }
                    if g.bind.map(|a| a.ip()) != Some(host) {
                        bad.push(("source", format!("bind address {:?}", g.bind)));
                    }
                }
            }
            if let Some((f, d)) = bad.first() {
                o.violate("wire_fields", format!("{site}|{f}"), format!("round {} slot {slot} seq {seq}: {d}{}", round.index, if bad.len() > 1 { format!(" (+{} more: {:?})", bad.len() - 1, bad.iter().skip(1).map(|b| b.0).collect::<Vec<_>>()) } else { String::new() }), replay.clone());
            }
        }
    }
}

// ------------------------------------------------------------------------------------------------
// C19: NAT flag

use trippy_core::NatStatus;

pub fn check_nat(w: &WorldInner, a: &Analysis, run: &RunResult, tcfg: &TraceCfg, o: &mut Outcome, site: &str, replay: &Value) {
    let applicable = tcfg.protocol == Protocol::Udp && tcfg.strategy == MultipathStrategy::Dublin && !tcfg.target.is_ipv6();
    let views = round_views(w, a, tcfg);
    for (round, v) in run.rounds.iter().zip(&views) {
        let Some(snap) = &round.snapshot else { continue };
        let hops = snap.hops();
        // walk the responding probes of the round in probe (= ttl) order
        let mut accs: Vec<&Accepted> = v.accepted.iter().collect();
        accs.sort_by_key(|x| x.group_idx);
        let mut prev: Option<u16> = None;
        for acc in accs {
            let Some(h) = hops.iter().find(|h| h.ttl() == acc.ttl) else { continue };
            let wid = v.groups[acc.group_idx].wire.unwrap();
            if !applicable {
                // other configurations never leave NotApplicable
                o.hit("not_applicable_elsewhere");
                if h.last_nat_status() != NatStatus::NotApplicable {
                    o.violate("not_applicable_elsewhere", site, format!("round {} ttl {}: {:?}", round.index, acc.ttl, h.last_nat_status()), replay.clone());
                }
                continue;
            }
            let Some(pid) = acc.read.pkt else { continue };
            let (Some(quoted), Some(sent)) = (w.pkts[pid].quoted_udp_csum, w.wires[wid].udp_csum) else { continue };
            let reference = prev.unwrap_or(sent);
            let want = if quoted == reference { NatStatus::NotDetected } else { NatStatus::Detected };
            // a hop probed twice in a round (re-issue) cannot occur for UDP; the snapshot is taken
            // right after the round so `last_nat_status` is this round's status
            o.hit("nat_detected_iff_checksum_changed");
            if want == NatStatus::Detected {
                o.hit("nat_detected_cases");
            }
            if h.last_nat_status() != want {
                o.violate(
                    "nat_detected_iff_checksum_changed",
                    format!("{site}|want {want:?} got {:?}", h.last_nat_status()),
                    format!("round {} ttl {}: status {:?}, expected {want:?} (quoted checksum {quoted:#06x}, reference {reference:#06x} = {})", round.index, acc.ttl, h.last_nat_status(), if prev.is_some() { "previous responder" } else { "probe as sent" }),
                    replay.clone(),
                );
            }
            prev = Some(quoted);
        }
    }
}

// ------------------------------------------------------------------------------------------------
// C07: sequence numbers

pub fn check_sequences(run: &RunResult, tcfg: &TraceCfg, o: &mut Outcome, site: &str, replay: &Value) {
    let mut prev: Option<(u16, u16)> = None; // (first, last) issued in the previous round
    for round in &run.rounds {
        let seqs: Vec<(usize, u16)> = round.probes.iter().enumerate().filter_map(|(i, p)| probe_fields(p).map(|f| (i, f.0))).collect();
        let slots = crate::truth::dispatched_slots(round).len();
        o.hit("at_most_512_per_round");
        if slots > 512 {
            o.violate("at_most_512_per_round", site, format!("round {}: {slots} sequence numbers", round.index), replay.clone());
        }
        let Some(&(i0, s0)) = seqs.first() else { continue };
        let first = s0.wrapping_sub(i0 as u16);
        o.hit("consecutive_within_round");
        for &(i, s) in &seqs {
            if u32::from(first) + i as u32 != u32::from(s) {
                o.violate("consecutive_within_round", site, format!("round {}: slot {i} has sequence {s}, round starts at {first}", round.index), replay.clone());
                break;
            }
        }
        let last = u32::from(first) + slots as u32 - 1;
        o.hit("never_reaches_65535");
        if last >= 65_535 {
            o.violate("never_reaches_65535", site, format!("round {}: sequences {first}..={last}", round.index), replay.clone());
        }
        if let Some((pf, pl)) = prev {
            o.hit("forward_or_restart_between_rounds");
            let continues = u32::from(first) == u32::from(pl) + 1;
            let restarts = first == tcfg.initial_sequence;
            if !(continues || restarts) {
                o.violate("forward_or_restart_between_rounds", site, format!("round {}: starts at {first}; previous round used {pf}..={pl}, initial sequence {}", round.index, tcfg.initial_sequence), replay.clone());
            }
            o.hit("disjoint_from_previous_round");
            if restarts && !continues {
                o.hit("restart_cases");
            }
            let overlap = u32::from(first) <= u32::from(pl) && last >= u32::from(pf);
            if overlap {
                o.violate("disjoint_from_previous_round", site, format!("round {}: sequences {first}..={last} overlap the previous round's {pf}..={pl}", round.index), replay.clone());
            }
        }
        if tcfg.protocol == Protocol::Udp && tcfg.strategy == MultipathStrategy::Dublin && tcfg.target.is_ipv6() {
            o.hit("dublin_ipv6_payload_fits");
            let payload = last.saturating_sub(u32::from(tcfg.initial_sequence)) + 6;
            if payload > 976 {
                o.violate("dublin_ipv6_payload_fits", site, format!("round {}: payload of {payload} octets for sequence {last}", round.index), replay.clone());
            }
        }
        prev = Some((first, last as u16));
    }
}
