//! Minimal MaxMind DB (MMDB v2.0) writer: an IPv6 search tree (IPv4 addresses in ::/96) with
//! 24 bit records, whose leaves point at flat string maps (the "ipinfo" schema trippy reads).
use std::collections::BTreeMap;
use std::net::IpAddr;

fn enc_ctrl(typ: u8, size: usize, out: &mut Vec<u8>) {
    // types 1..=7 fit the control byte, larger types use the extended form
    let (t, ext) = if typ <= 7 { (typ, None) } else { (0, Some(typ - 7)) };
    if size < 29 {
        out.push((t << 5) | size as u8);
    } else if size < 29 + 256 {
        out.push((t << 5) | 29);
        if let Some(e) = ext {
            out.push(e);
        }
        out.push((size - 29) as u8);
        return;
    } else {
        out.push((t << 5) | 30);
        if let Some(e) = ext {
            out.push(e);
        }
        out.extend_from_slice(&((size - 285) as u16).to_be_bytes());
        return;
    }
    if let Some(e) = ext {
        out.push(e);
    }
}

fn enc_str(s: &str, out: &mut Vec<u8>) {
    enc_ctrl(2, s.len(), out);
    out.extend_from_slice(s.as_bytes());
}

fn enc_uint(typ: u8, v: u64, out: &mut Vec<u8>) {
    let bytes = v.to_be_bytes();
    let skip = bytes.iter().take_while(|b| **b == 0).count();
    enc_ctrl(typ, 8 - skip, out);
    out.extend_from_slice(&bytes[skip..]);
}

fn enc_map_str(m: &BTreeMap<String, String>, out: &mut Vec<u8>) {
    enc_ctrl(7, m.len(), out);
    for (k, v) in m {
        enc_str(k, out);
        enc_str(v, out);
    }
}

#[derive(Default)]
struct Node {
    child: [Option<usize>; 2],
    data: [Option<usize>; 2],
}

/// Build an MMDB image mapping each address to a map of strings.
pub fn build(records: &[(IpAddr, BTreeMap<String, String>)], database_type: &str) -> Vec<u8> {
    // data section
    let mut data = Vec::new();
    let mut offsets = Vec::new();
    for (_, m) in records {
        offsets.push(data.len());
        enc_map_str(m, &mut data);
    }
    // search tree over 128 bits
    let mut nodes: Vec<Node> = vec![Node::default()];
    for (i, (addr, _)) in records.iter().enumerate() {
        let bits: u128 = match addr {
            IpAddr::V4(a) => u128::from(u32::from(*a)),
            IpAddr::V6(a) => u128::from(*a),
        };
        let mut n = 0usize;
        for depth in 0..128 {
            let b = ((bits >> (127 - depth)) & 1) as usize;
            if depth == 127 {
                nodes[n].data[b] = Some(i);
            } else {
                let next = match nodes[n].child[b] {
                    Some(c) => c,
                    None => {
                        nodes.push(Node::default());
                        let c = nodes.len() - 1;
                        nodes[n].child[b] = Some(c);
                        c
                    }
                };
                n = next;
            }
        }
    }
    let node_count = nodes.len();
    let mut out = Vec::new();
    for n in &nodes {
        for b in 0..2 {
            let v: u32 = if let Some(c) = n.child[b] {
                c as u32
            } else if let Some(d) = n.data[b] {
                (node_count + 16 + offsets[d]) as u32
            } else {
                node_count as u32
            };
            out.extend_from_slice(&v.to_be_bytes()[1..]);
        }
    }
    out.extend_from_slice(&[0u8; 16]);
    out.extend_from_slice(&data);
    // metadata
    out.extend_from_slice(b"\xab\xcd\xefMaxMind.com");
    let mut meta = Vec::new();
    enc_ctrl(7, 9, &mut meta);
    enc_str("binary_format_major_version", &mut meta);
    enc_uint(5, 2, &mut meta);
    enc_str("binary_format_minor_version", &mut meta);
    enc_uint(5, 0, &mut meta);
    enc_str("build_epoch", &mut meta);
    enc_uint(9, 1_700_000_000, &mut meta);
    enc_str("database_type", &mut meta);
    enc_str(database_type, &mut meta);
    enc_str("description", &mut meta);
    let mut desc = BTreeMap::new();
    desc.insert("en".to_string(), "verification fixture".to_string());
    enc_map_str(&desc, &mut meta);
    enc_str("ip_version", &mut meta);
    enc_uint(5, 6, &mut meta);
    enc_str("languages", &mut meta);
    enc_ctrl(11, 1, &mut meta);
    enc_str("en", &mut meta);
    enc_str("node_count", &mut meta);
    enc_uint(6, node_count as u64, &mut meta);
    enc_str("record_size", &mut meta);
    enc_uint(5, 24, &mut meta);
    out.extend_from_slice(&meta);
    out
}
