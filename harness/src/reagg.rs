//! Independent, non-incremental re-aggregation of published rounds into per-hop statistics
//! (the C05 oracle; also used by C01, C10, C15, C20).
use std::net::IpAddr;
use std::time::Duration;
use trippy_core::{Extensions, FlowId, Hop, IcmpPacketType, NatStatus, ProbeStatus, State, TypeOfService};

#[derive(Debug, Clone)]
pub struct RefHop {
    pub ttl: u8,
    pub sent: usize,
    pub recv: usize,
    pub failed: usize,
    pub fwd: usize,
    pub bwd: usize,
    /// RTT of every completed probe, oldest first.
    pub rtts: Vec<Duration>,
    /// Sample history, oldest first (zero for awaited and failed probes).
    pub history: Vec<Duration>,
    pub addrs: Vec<(IpAddr, usize)>,
    pub last_src: u16,
    pub last_dest: u16,
    pub last_seq: u16,
    pub last_icmp: Option<IcmpPacketType>,
    pub tos: Option<TypeOfService>,
    pub ext: Option<Extensions>,
    pub nat: NatStatus,
}

impl Default for RefHop {
    fn default() -> Self {
        Self {
            ttl: 0,
            sent: 0,
            recv: 0,
            failed: 0,
            fwd: 0,
            bwd: 0,
            rtts: Vec::new(),
            history: Vec::new(),
            addrs: Vec::new(),
            last_src: 0,
            last_dest: 0,
            last_seq: 0,
            last_icmp: None,
            tos: None,
            ext: None,
            nat: NatStatus::NotApplicable,
        }
    }
}

#[derive(Debug, Clone)]
pub struct RefFlow {
    pub hops: Vec<RefHop>,
    pub lowest: u8,
    pub highest: u8,
    pub highest_for_round: u8,
    pub round: Option<usize>,
    pub round_count: usize,
}

impl Default for RefFlow {
    fn default() -> Self {
        Self {
            hops: (0..254).map(|_| RefHop::default()).collect(),
            lowest: 0,
            highest: 0,
            highest_for_round: 0,
            round: None,
            round_count: 0,
        }
    }
}

fn ttl_of(p: &ProbeStatus) -> Option<u8> {
    match p {
        ProbeStatus::Awaited(a) => Some(a.ttl.0),
        ProbeStatus::Complete(c) => Some(c.ttl.0),
        ProbeStatus::Failed(f) => Some(f.ttl.0),
        ProbeStatus::NotSent | ProbeStatus::Skipped => None,
    }
}

impl RefFlow {
    pub fn apply(&mut self, probes: &[ProbeStatus], largest_ttl: u8) {
        self.round_count += 1;
        self.highest = self.highest.max(largest_ttl);
        self.highest_for_round = largest_ttl;
        // loss classification for the awaited probes of this round (RELEASES.md 0.12):
        // forward loss: the probe is lost, at least one later probe (higher ttl) exists in the
        // round and every later probe is lost too, and no earlier probe already has forward loss;
        // backward loss: the probe is lost and an earlier probe of the round has forward loss.
        let mut forward_seen = false;
        let mut prev_csum: Option<u16> = None;
        for (i, p) in probes.iter().enumerate() {
            let Some(ttl) = ttl_of(p) else { continue };
            if ttl == 0 {
                continue;
            }
            self.lowest = if self.lowest == 0 { ttl } else { self.lowest.min(ttl) };
            let round = match p {
                ProbeStatus::Awaited(a) => a.round.0,
                ProbeStatus::Complete(c) => c.round.0,
                ProbeStatus::Failed(f) => f.round.0,
                _ => unreachable!(),
            };
            self.round = Some(self.round.map_or(round, |r| r.max(round)));
            let hop = &mut self.hops[usize::from(ttl) - 1];
            hop.ttl = ttl;
            hop.sent += 1;
            match p {
                ProbeStatus::Complete(c) => {
                    hop.recv += 1;
                    let rtt = c.received.duration_since(c.sent).unwrap_or_default();
                    hop.rtts.push(rtt);
                    hop.history.push(rtt);
                    match hop.addrs.iter_mut().find(|(a, _)| *a == c.host) {
                        Some(e) => e.1 += 1,
                        None => hop.addrs.push((c.host, 1)),
                    }
                    hop.last_src = c.src_port.0;
                    hop.last_dest = c.dest_port.0;
                    hop.last_seq = c.sequence.0;
                    hop.last_icmp = Some(c.icmp_packet_type);
                    hop.tos = c.tos;
                    hop.ext = c.extensions.clone();
                    if let (Some(exp), Some(act)) = (c.expected_udp_checksum, c.actual_udp_checksum) {
                        // C19 wording: detected exactly when the quoted checksum differs from that
                        // quoted by the previous responding hop (first responder: from the
                        // checksum of the probe as sent).
                        let reference = prev_csum.unwrap_or(exp.0);
                        hop.nat = if act.0 == reference { NatStatus::NotDetected } else { NatStatus::Detected };
                        prev_csum = Some(act.0);
                    }
                }
                ProbeStatus::Awaited(a) => {
                    hop.history.push(Duration::ZERO);
                    hop.last_src = a.src_port.0;
                    hop.last_dest = a.dest_port.0;
                    hop.last_seq = a.sequence.0;
                    if forward_seen {
                        hop.bwd += 1;
                    } else {
                        let later: Vec<&ProbeStatus> = probes[i + 1..].iter().filter(|q| ttl_of(q).is_some_and(|t| t > ttl)).collect();
                        let all_lost = later.iter().all(|q| matches!(q, ProbeStatus::Awaited(_)));
                        if !later.is_empty() && all_lost {
                            hop.fwd += 1;
                            forward_seen = true;
                        }
                    }
                }
                ProbeStatus::Failed(f) => {
                    hop.failed += 1;
                    hop.history.push(Duration::ZERO);
                    hop.last_src = f.src_port.0;
                    hop.last_dest = f.dest_port.0;
                    hop.last_seq = f.sequence.0;
                }
                _ => {}
            }
        }
    }

    pub fn hop_range(&self) -> (usize, usize) {
        if self.lowest == 0 || self.highest == 0 {
            (0, 0)
        } else {
            (usize::from(self.lowest) - 1, usize::from(self.highest))
        }
    }
}

fn ms(d: Duration) -> f64 {
    d.as_secs_f64() * 1000.0
}

fn close(a: f64, b: f64) -> bool {
    let diff = (a - b).abs();
    diff <= 2e-6 || diff <= 1e-9 * a.abs().max(b.abs())
}

/// Compare one real hop with its reference; returns mismatch descriptions `field: real != ref`.
pub fn compare_hop(real: &Hop, r: &RefHop, max_samples: usize) -> Vec<(&'static str, String)> {
    let mut out: Vec<(&'static str, String)> = Vec::new();
    macro_rules! eq {
        ($name:expr, $a:expr, $b:expr) => {
            if $a != $b {
                out.push(($name, format!("{:?} != expected {:?}", $a, $b)));
            }
        };
    }
    macro_rules! feq {
        ($name:expr, $a:expr, $b:expr) => {
            if !close($a, $b) {
                out.push(($name, format!("{:?} != expected {:?}", $a, $b)));
            }
        };
    }
    eq!("ttl", real.ttl(), r.ttl);
    eq!("total_sent", real.total_sent(), r.sent);
    eq!("total_recv", real.total_recv(), r.recv);
    eq!("total_failed", real.total_failed(), r.failed);
    eq!("total_forward_loss", real.total_forward_loss(), r.fwd);
    eq!("total_backward_loss", real.total_backward_loss(), r.bwd);
    let loss = if r.sent > 0 { (r.sent - r.recv) as f64 / r.sent as f64 * 100.0 } else { 0.0 };
    feq!("loss_pct", real.loss_pct(), loss);
    let fl = if r.sent > 0 { r.fwd as f64 / r.sent as f64 * 100.0 } else { 0.0 };
    feq!("forward_loss_pct", real.forward_loss_pct(), fl);
    let bl = if r.sent > 0 { r.bwd as f64 / r.sent as f64 * 100.0 } else { 0.0 };
    feq!("backward_loss_pct", real.backward_loss_pct(), bl);
    let rtt_ms: Vec<f64> = r.rtts.iter().map(|d| ms(*d)).collect();
    let n = rtt_ms.len();
    let opt = |name: &'static str, a: Option<f64>, b: Option<f64>, out: &mut Vec<(&'static str, String)>| match (a, b) {
        (None, None) => {}
        (Some(x), Some(y)) if close(x, y) => {}
        _ => out.push((name, format!("{a:?} != expected {b:?}"))),
    };
    opt("last_ms", real.last_ms(), rtt_ms.last().copied(), &mut out);
    opt("best_ms", real.best_ms(), rtt_ms.iter().copied().reduce(f64::min), &mut out);
    opt("worst_ms", real.worst_ms(), rtt_ms.iter().copied().reduce(f64::max), &mut out);
    // average from the exact sum of durations
    let total: Duration = r.rtts.iter().sum();
    let avg = if n > 0 { ms(total) / n as f64 } else { 0.0 };
    feq!("avg_ms", real.avg_ms(), avg);
    // two pass sample standard deviation
    let sd = if n > 1 {
        let mean = rtt_ms.iter().sum::<f64>() / n as f64;
        (rtt_ms.iter().map(|x| (x - mean) * (x - mean)).sum::<f64>() / (n - 1) as f64).sqrt()
    } else {
        0.0
    };
    if !(close(real.stddev_ms(), sd) || (real.stddev_ms() - sd).abs() <= 1e-7 * sd.max(1.0)) {
        out.push(("stddev_ms", format!("{:?} != expected {:?}", real.stddev_ms(), sd)));
    }
    // jitter series: |rtt_i - rtt_{i-1}| with rtt_0 := 0 (pinned by the repository's scenarios)
    let mut jit = Vec::with_capacity(n);
    let mut prev = 0.0;
    for x in &rtt_ms {
        jit.push((x - prev).abs());
        prev = *x;
    }
    let jitter = if n >= 2 { Some(jit[n - 1]) } else { None };
    opt("jitter_ms", real.jitter_ms(), jitter, &mut out);
    let javg = if n > 0 { jit.iter().sum::<f64>() / n as f64 } else { 0.0 };
    if !(close(real.javg_ms(), javg) || (real.javg_ms() - javg).abs() <= 1e-9 * javg.max(1.0) * n as f64) {
        out.push(("javg_ms", format!("{:?} != expected {:?}", real.javg_ms(), javg)));
    }
    opt("jmax_ms", real.jmax_ms(), jit.iter().copied().reduce(f64::max), &mut out);
    // RFC 3550 style smoothed jitter as used by the repository: J += max(j, 0.5) - (J + 8) / 16
    let mut jinta = 0.0;
    for j in &jit {
        jinta += j.max(0.5) - (jinta + 8.0) / 16.0;
    }
    if !(close(real.jinta(), jinta) || (real.jinta() - jinta).abs() <= 1e-9 * jinta.abs().max(1.0)) {
        out.push(("jinta", format!("{:?} != expected {:?}", real.jinta(), jinta)));
    }
    // addresses with counts, in first-seen order
    let real_addrs: Vec<(IpAddr, usize)> = real.addrs_with_counts().map(|(a, c)| (*a, *c)).collect();
    eq!("addrs_with_counts", real_addrs, r.addrs);
    eq!("addr_count", real.addr_count(), r.addrs.len());
    let real_keys: Vec<IpAddr> = real.addrs().copied().collect();
    let ref_keys: Vec<IpAddr> = r.addrs.iter().map(|(a, _)| *a).collect();
    eq!("addrs", real_keys, ref_keys);
    eq!("last_src_port", real.last_src_port(), r.last_src);
    eq!("last_dest_port", real.last_dest_port(), r.last_dest);
    eq!("last_sequence", real.last_sequence(), r.last_seq);
    eq!("last_icmp_packet_type", real.last_icmp_packet_type(), r.last_icmp);
    eq!("last_nat_status", real.last_nat_status(), r.nat);
    eq!("tos", real.tos(), r.tos);
    eq!("dscp", real.dscp().map(|d| format!("{d:?}")), r.tos.map(|t| format!("{:?}", t.dscp())));
    eq!("ecn", real.ecn().map(|d| format!("{d:?}")), r.tos.map(|t| format!("{:?}", t.ecn())));
    eq!("extensions", real.extensions().cloned(), r.ext.clone());
    // newest first history bounded by the sample limit
    let mut want: Vec<Duration> = r.history.iter().rev().copied().collect();
    want.truncate(max_samples);
    if real.samples() != want.as_slice() {
        out.push((
            "samples",
            format!("len {} != expected len {} (first real {:?}, first expected {:?})", real.samples().len(), want.len(), real.samples().first(), want.first()),
        ));
    }
    // conservation laws, asserted separately
    if real.total_recv() + real.total_failed() > real.total_sent() {
        out.push(("law:recv+failed<=sent", format!("{}+{} > {}", real.total_recv(), real.total_failed(), real.total_sent())));
    }
    if real.addrs_with_counts().map(|(_, c)| *c).sum::<usize>() != real.total_recv() {
        out.push(("law:sum(addr counts)==recv", format!("{:?} vs {}", real_addrs_sum(real), real.total_recv())));
    }
    if let (Some(b), Some(w)) = (real.best_ms(), real.worst_ms()) {
        let a = real.avg_ms();
        if !(b <= a + 1e-9 * a.abs().max(1.0) && a <= w + 1e-9 * w.abs().max(1.0)) {
            out.push(("law:best<=avg<=worst", format!("{b} {a} {w}")));
        }
    }
    if !(0.0..=100.0).contains(&real.loss_pct()) {
        out.push(("law:0<=loss<=100", format!("{}", real.loss_pct())));
    }
    if real.total_forward_loss() + real.total_backward_loss() > real.total_sent().saturating_sub(real.total_recv() + real.total_failed()) {
        out.push((
            "law:fwd+bwd<=sent-recv-failed",
            format!("{}+{} > {}-{}-{}", real.total_forward_loss(), real.total_backward_loss(), real.total_sent(), real.total_recv(), real.total_failed()),
        ));
    }
    if real.samples().len() > max_samples {
        out.push(("law:samples<=limit", format!("{} > {}", real.samples().len(), max_samples)));
    }
    out
}

fn real_addrs_sum(h: &Hop) -> usize {
    h.addrs_with_counts().map(|(_, c)| *c).sum()
}

/// Compare a whole flow of a `State` against the reference; returns (field, detail) mismatches.
pub fn compare_flow(state: &State, flow: FlowId, r: &RefFlow, max_samples: usize) -> Vec<(&'static str, String)> {
    let mut out = Vec::new();
    let hops = state.hops_for_flow(flow);
    let (from, to) = r.hop_range();
    if hops.len() != to.saturating_sub(from) {
        out.push(("hops.len", format!("{} != expected {} (lowest {}, highest {})", hops.len(), to.saturating_sub(from), r.lowest, r.highest)));
        return out;
    }
    for (h, rh) in hops.iter().zip(&r.hops[from..to]) {
        for (f, d) in compare_hop(h, rh, max_samples) {
            out.push((f, format!("ttl {}: {d}", rh.ttl)));
        }
    }
    if state.round_count(flow) != r.round_count {
        out.push(("round_count", format!("{} != expected {}", state.round_count(flow), r.round_count)));
    }
    if state.round(flow) != r.round {
        out.push(("round", format!("{:?} != expected {:?}", state.round(flow), r.round)));
    }
    out
}
