//! C17 / C18, stage "real loop": the real `run_app` event loop (key routing included) reading its
//! keys from a pseudo terminal, drawing on a recording backend.  crossterm's event source is
//! process-global, so sessions run in child processes (this binary re-executed).
use crate::framework::{guarded, Outcome, Tier};
use crate::prng::Prng;
use crate::props::c17::{addr_of, gen_round, Model, Which};
use crate::tui::{all_keys, targets_for, Parts, Secrets, Session, TuiSetup};
use crossterm::event::{KeyCode, KeyEvent, KeyModifiers};
use ratatui::backend::{Backend, ClearType, TestBackend, WindowSize};
use ratatui::buffer::Cell;
use ratatui::layout::{Position, Size};
use ratatui::Terminal;
use serde_json::{json, Value};
use std::io;
use std::net::IpAddr;
use std::sync::atomic::{AtomicBool, AtomicU64, Ordering};
use std::sync::{Arc, Mutex};
use std::time::{Duration, Instant};
use trippy_core::{CompletionReason, MultipathStrategy, Protocol, Round, TimeToLive};

// ------------------------------------------------------------------------------------------------
// pseudo terminal

pub struct Pty {
    master: i32,
}

impl Pty {
    /// Open a pty pair, put the slave in raw mode and make it this process's stdin.
    pub fn open_as_stdin() -> io::Result<Self> {
        unsafe {
            let master = libc::posix_openpt(libc::O_RDWR | libc::O_NOCTTY);
            if master < 0 || libc::grantpt(master) != 0 || libc::unlockpt(master) != 0 {
                return Err(io::Error::last_os_error());
            }
            let mut name = [0 as libc::c_char; 128];
            if libc::ptsname_r(master, name.as_mut_ptr(), name.len()) != 0 {
                return Err(io::Error::last_os_error());
            }
            let slave = libc::open(name.as_ptr(), libc::O_RDWR | libc::O_NOCTTY);
            if slave < 0 {
                return Err(io::Error::last_os_error());
            }
            let mut t: libc::termios = std::mem::zeroed();
            libc::tcgetattr(slave, &mut t);
            libc::cfmakeraw(&mut t);
            libc::tcsetattr(slave, libc::TCSANOW, &t);
            let ws = libc::winsize { ws_row: 40, ws_col: 120, ws_xpixel: 0, ws_ypixel: 0 };
            libc::ioctl(slave, libc::TIOCSWINSZ, &ws);
            if libc::dup2(slave, 0) < 0 {
                return Err(io::Error::last_os_error());
            }
            libc::close(slave);
            Ok(Self { master })
        }
    }

    pub fn send(&self, bytes: &[u8]) {
        unsafe {
            libc::write(self.master, bytes.as_ptr().cast(), bytes.len());
        }
    }

    /// Discard keys the application has not read.
    pub fn discard_input(&self) {
        unsafe {
            libc::tcflush(0, libc::TCIFLUSH);
        }
    }
}

/// The bytes a terminal sends for a key.
pub fn encode(key: KeyEvent) -> Option<Vec<u8>> {
    let ctrl = key.modifiers.contains(KeyModifiers::CONTROL);
    let shift = key.modifiers.contains(KeyModifiers::SHIFT);
    Some(match key.code {
        KeyCode::Char(c) if ctrl && c.is_ascii_alphabetic() => vec![(c.to_ascii_lowercase() as u8) & 0x1f],
        KeyCode::Char(c) if shift => c.to_ascii_uppercase().to_string().into_bytes(),
        KeyCode::Char(c) => c.to_string().into_bytes(),
        KeyCode::Esc => vec![0x1b],
        KeyCode::Enter => vec![b'\r'],
        KeyCode::Up => b"\x1b[A".to_vec(),
        KeyCode::Down => b"\x1b[B".to_vec(),
        KeyCode::Right => b"\x1b[C".to_vec(),
        KeyCode::Left => b"\x1b[D".to_vec(),
        _ => return None,
    })
}

// ------------------------------------------------------------------------------------------------
// recording backend

#[derive(Default)]
pub struct Shared {
    pub draws: AtomicU64,
    pub done: AtomicBool,
    pub resize: Mutex<Option<(u16, u16)>>,
    /// (kind, needle) that must never be on screen
    pub hidden: Vec<(String, String)>,
    /// needles of hops that are shown normally (to know the scan can see something)
    pub visible: Vec<String>,
    pub leak: Mutex<Option<(String, String, String, u64)>>,
    pub frames_with_visible_hop_data: AtomicU64,
    pub frames_scanned: AtomicU64,
    pub last_rows: Mutex<Vec<String>>,
    /// panel titles seen in frames (evidence that the typed keys really switched views)
    pub titles_seen: Mutex<std::collections::BTreeSet<&'static str>>,
}

pub struct RecBackend {
    inner: TestBackend,
    shared: Arc<Shared>,
}

impl RecBackend {
    pub fn new(shared: Arc<Shared>) -> Self {
        Self { inner: TestBackend::new(120, 40), shared }
    }
}

impl Backend for RecBackend {
    fn draw<'a, I>(&mut self, content: I) -> io::Result<()>
    where
        I: Iterator<Item = (u16, u16, &'a Cell)>,
    {
        self.inner.draw(content)
    }
    fn hide_cursor(&mut self) -> io::Result<()> {
        self.inner.hide_cursor()
    }
    fn show_cursor(&mut self) -> io::Result<()> {
        self.inner.show_cursor()
    }
    fn get_cursor_position(&mut self) -> io::Result<Position> {
        self.inner.get_cursor_position()
    }
    fn set_cursor_position<P: Into<Position>>(&mut self, position: P) -> io::Result<()> {
        self.inner.set_cursor_position(position)
    }
    fn clear(&mut self) -> io::Result<()> {
        self.inner.clear()
    }
    fn clear_region(&mut self, clear_type: ClearType) -> io::Result<()> {
        self.inner.clear_region(clear_type)
    }
    fn size(&self) -> io::Result<Size> {
        self.inner.size()
    }
    fn window_size(&mut self) -> io::Result<WindowSize> {
        self.inner.window_size()
    }
    fn flush(&mut self) -> io::Result<()> {
        // a frame is complete: scan it
        let buf = self.inner.buffer();
        let area = buf.area;
        let rows: Vec<String> = (0..area.height).map(|y| (0..area.width).map(|x| buf[(x, y)].symbol().to_string()).collect::<String>()).collect();
        let n = self.shared.draws.load(Ordering::SeqCst);
        if !self.shared.hidden.is_empty() || !self.shared.visible.is_empty() {
            self.shared.frames_scanned.fetch_add(1, Ordering::Relaxed);
            for (kind, needle) in &self.shared.hidden {
                if let Some(row) = rows.iter().find(|r| r.contains(needle.as_str())) {
                    let mut l = self.shared.leak.lock().unwrap();
                    if l.is_none() {
                        *l = Some((kind.clone(), needle.clone(), row.trim().to_string(), n));
                    }
                }
            }
            if self.shared.visible.iter().any(|v| rows.iter().any(|r| r.contains(v.as_str()))) {
                self.shared.frames_with_visible_hop_data.fetch_add(1, Ordering::Relaxed);
            }
        }
        {
            let mut t = self.shared.titles_seen.lock().unwrap();
            for title in ["Hops", "Samples", "Flows", "Map", "Help", "Settings", "Chart", "Frequency", "Traces"] {
                if !t.contains(title) && rows.iter().any(|r| r.contains(title)) {
                    t.insert(title);
                }
            }
        }
        *self.shared.last_rows.lock().unwrap() = rows;
        if let Some((w, h)) = self.shared.resize.lock().unwrap().take() {
            self.inner.resize(w, h);
        }
        self.shared.draws.fetch_add(1, Ordering::SeqCst);
        self.inner.flush()
    }
}

// ------------------------------------------------------------------------------------------------
// one session (child side)

const CLAUSES: [&str; 4] = ["real_loop_session_completes", "real_loop_hidden_hop_data_absent", "real_loop_source_address_hidden", "real_loop_quit_key_ends_the_loop"];

pub fn static_clause(name: &str) -> Option<&'static str> {
    CLAUSES.iter().copied().find(|c| *c == name)
}

fn wait_draw(shared: &Shared, after: u64, limit: Duration) -> bool {
    let t0 = Instant::now();
    while shared.draws.load(Ordering::SeqCst) <= after {
        if shared.done.load(Ordering::SeqCst) {
            return false;
        }
        if t0.elapsed() > limit {
            return false;
        }
        std::thread::sleep(Duration::from_micros(100));
    }
    true
}

fn child_session(pty: &Pty, seed: u64, i: usize, tier: Tier, which: Which) -> Outcome {
    let mut o = Outcome::default();
    let mut r = Prng::new(seed ^ (i as u64).wrapping_mul(0x9E37_79B9_7F4A_7C15) ^ 0xC17_100);
    let strategy = *r.pick(&[MultipathStrategy::Classic, MultipathStrategy::Paris, MultipathStrategy::Dublin]);
    let protocol = if strategy == MultipathStrategy::Classic { *r.pick(&[Protocol::Icmp, Protocol::Udp, Protocol::Tcp]) } else { Protocol::Udp };
    let traces = if protocol == Protocol::Icmp { *r.pick(&[1usize, 1, 2, 4]) } else { 1 };
    let privacy = if which == Which::Privacy { *r.pick(&[Some(1u8), Some(2), Some(3), Some(5), Some(9)]) } else { *r.pick(&[None, None, Some(0), Some(2)]) };
    let setup = TuiSetup {
        address_mode: *r.pick(&["ip", "host", "both"]),
        as_mode: *r.pick(&["asn", "prefix", "country-code", "registry", "allocated", "name"]),
        geoip_mode: *r.pick(&["short", "long", "location", "off"]),
        icmp_ext_mode: *r.pick(&["off", "mpls", "full", "all"]),
        lookup_as_info: r.chance(1, 2),
        // (the 27 column set is left to the mirrored driver: its draw can hang, see known findings)
        columns: (*r.pick(&["holsravbwdt", "h", "ho", "holsravbwdtjgxiSPQ", "oh", "odh"])).to_string(),
        privacy,
        max_addrs: *r.pick(&[None, None, Some(1), Some(2), Some(9)]),
        traces,
        protocol,
        strategy,
        max_flows: *r.pick(&[1usize, 2, 64]),
        max_samples: *r.pick(&[1usize, 3, 256]),
        with_geoip: r.chance(2, 3),
    };
    let id = if which == Which::Crash { "C17" } else { "C18" };
    let site = format!("real-loop|{protocol}/{strategy}/traces{traces}");
    let replay = json!({"how": format!("vcheck {id} --seed {seed} --only loop:{i}"), "session": i, "stage": "real run_app loop over a pty", "setup": format!("{setup:?}")});
    let mut secrets: Vec<Secrets> = Vec::new();
    let mut idx = 0;
    for hop in 1..=40usize {
        for b in 0..3 {
            secrets.push(Secrets::new(addr_of(hop, b), idx, &mut r));
            idx += 1;
        }
    }
    for t in targets_for(traces) {
        secrets.push(Secrets::new(t, idx, &mut r));
        idx += 1;
    }
    let Parts { mut app, tracers, mmdb_path } = match guarded(|| Session::parts(&setup, &secrets, (seed << 20) ^ (i as u64) ^ 0x8000_0000)) {
        Ok(Ok(p)) => p,
        Ok(Err(e)) => {
            o.harness_error = Some(format!("loop session {i}: {e}"));
            return o;
        }
        Err(p) => {
            o.harness_error = Some(format!("loop session {i}: panic while building {}:{}: {}", p.file, p.line, p.message));
            return o;
        }
    };
    // what must never be on screen: everything of the addresses that only ever answer at ttl <= n
    let mut shared = Shared::default();
    if which == Which::Privacy {
        let n = usize::from(privacy.unwrap_or(0));
        for s in &secrets {
            let hop = (1..=40usize).find(|h| (0..3).any(|b| addr_of(*h, b) == s.addr));
            match hop {
                Some(h) if h <= n => shared.hidden.extend(s.needles().into_iter().map(|(k, v)| (k.to_string(), v))),
                Some(_) => shared.visible.push(s.ip.clone()),
                None => {}
            }
        }
    }
    let shared = Arc::new(shared);
    let mut keys: Vec<(&'static str, Vec<u8>)> = all_keys(&app).into_iter().filter_map(|(n, k)| encode(k).map(|b| (n, b))).collect();
    if which == Which::Privacy {
        // the hidden set is fixed for the session: the privacy keys are left to the mirrored driver
        keys.retain(|(n, _)| *n != "expand_privacy" && *n != "contract_privacy");
    }
    let quit = encode(KeyEvent::new(app.tui_config.bindings.quit.code, app.tui_config.bindings.quit.modifiers)).unwrap_or_else(|| b"q".to_vec());
    let cycles = tier.pick(150, 400);
    pty.discard_input();
    let mut terminal = match Terminal::new(RecBackend::new(shared.clone())) {
        Ok(t) => t,
        Err(e) => {
            o.harness_error = Some(format!("terminal: {e}"));
            return o;
        }
    };
    let stalled = Arc::new(AtomicBool::new(false));
    let history: Arc<Mutex<Vec<String>>> = Arc::new(Mutex::new(Vec::new()));
    let keys_sent = Arc::new(AtomicU64::new(0));
    let result = std::thread::scope(|sc| {
        // ---- controller: changes the traces, resizes the terminal, types keys
        let (shared2, stalled2, history2, keys_sent2, tracers2) = (shared.clone(), stalled.clone(), history.clone(), keys_sent.clone(), tracers.clone());
        let cseed = r.next_u64();
        let keys = &keys;
        let quit = &quit;
        sc.spawn(move || {
            let mut r = Prng::new(cseed);
            let mut model = Model::new((0..traces).map(|_| r.range(1, 12) as usize).collect(), 1);
            let record = |e: String| {
                let mut h = history2.lock().unwrap();
                if h.len() >= 12 {
                    h.remove(0);
                }
                h.push(e);
            };
            if !wait_draw(&shared2, 0, Duration::from_secs(15)) && !shared2.done.load(Ordering::SeqCst) {
                stalled2.store(true, Ordering::SeqCst);
            }
            for _ in 0..cycles {
                if shared2.done.load(Ordering::SeqCst) || stalled2.load(Ordering::SeqCst) {
                    break;
                }
                match r.below(10) {
                    0..=4 => {
                        let n = r.range(1, 3);
                        for _ in 0..n {
                            let t = r.below(traces as u64) as usize;
                            let (probes, largest) = gen_round(&mut r, &mut model, t, strategy);
                            let round = Round::new(&probes, TimeToLive(largest), CompletionReason::TargetFound);
                            tracers2[t].verif_apply_round(&round);
                        }
                        record(format!("rounds x{n}"));
                    }
                    5 if r.chance(1, 6) => {
                        let t = r.below(traces as u64) as usize;
                        tracers2[t].clear();
                        model.round[t] = 0;
                        record(format!("tracer.clear({t})"));
                    }
                    6 if r.chance(1, 40) => {
                        let t = r.below(traces as u64) as usize;
                        tracers2[t].verif_set_error("IO error: simulated failure".to_string());
                        record(format!("tracer.error({t})"));
                    }
                    7 if r.chance(1, 3) => {
                        let (w, h) = match r.below(6) {
                            0 => (r.range(1, 12) as u16, r.range(1, 12) as u16),
                            1 => (r.range(1, 300) as u16, r.range(1, 100) as u16),
                            2 => (300, 100),
                            3 => (1, 1),
                            _ => (r.range(60, 200) as u16, r.range(20, 70) as u16),
                        };
                        *shared2.resize.lock().unwrap() = Some((w, h));
                        record(format!("resize {w}x{h}"));
                    }
                    _ => {}
                }
                let before = shared2.draws.load(Ordering::SeqCst);
                if r.chance(29, 30) {
                    let (name, bytes) = r.pick(keys);
                    pty.send(bytes);
                    keys_sent2.fetch_add(1, Ordering::Relaxed);
                    record(format!("key {name}"));
                }
                // the loop draws after handling a key, or at the refresh rate
                if !wait_draw(&shared2, before, Duration::from_secs(15)) && !shared2.done.load(Ordering::SeqCst) {
                    stalled2.store(true, Ordering::SeqCst);
                    break;
                }
            }
            // leave help / settings and quit
            for _ in 0..40 {
                if shared2.done.load(Ordering::SeqCst) {
                    break;
                }
                let before = shared2.draws.load(Ordering::SeqCst);
                pty.send(quit);
                wait_draw(&shared2, before, Duration::from_millis(500));
            }
            if !shared2.done.load(Ordering::SeqCst) {
                // the quit key did not end the loop: the process is of no further use
                stalled2.store(true, Ordering::SeqCst);
                println!("{}", json!({"i": i, "stalled": true, "history": *history2.lock().unwrap()}));
                std::process::exit(3);
            }
        });
        // ---- the real event loop, on this thread
        let res = guarded(|| trippy_tui::verif::run_app(&mut terminal, &mut app));
        shared.done.store(true, Ordering::SeqCst);
        res
    });
    if let Some(p) = &mmdb_path {
        let _ = std::fs::remove_file(p);
    }
    let ctx = format!("after {} draws, {} keys (last events: {})", shared.draws.load(Ordering::SeqCst), keys_sent.load(Ordering::Relaxed), history.lock().unwrap().join(", "));
    o.hit("real_loop_session_completes");
    match result {
        Ok(Ok(())) => {
            o.hit("real_loop_quit_key_ends_the_loop");
        }
        Ok(Err(e)) => {
            o.harness_error = Some(format!("loop session {i}: run_app returned an io error: {e}"));
        }
        // ratatui's constraint solver giving up on the hop table's column constraints (the known
        // finding, keyed like in the mirrored driver)
        Err(p) if which == Which::Crash && (p.message.contains("failed to split") || p.message.contains("InternalSolverError")) => {
            o.violate("layout_solver_fails", format!("view=table|columns={}", crate::props::c17::column_class(&setup.columns)), format!("{ctx}: the real event loop panicked at {}:{}: {}", p.file, p.line, p.message), replay.clone());
        }
        Err(p) if which == Which::Crash => {
            let view = "run_app";
            if p.in_repo() {
                o.violate("no_panic", format!("{site}|{view}|{}", p.site()), format!("{ctx}: the real event loop panicked at {}:{}: {}", p.file, p.line, p.message), replay.clone());
            } else {
                o.violate("no_panic", format!("{site}|dep|{}", p.file.rsplit('/').next().unwrap_or("")), format!("{ctx}: the real event loop panicked in a dependency at {}:{}: {}", p.file, p.line, p.message), replay.clone());
            }
        }
        Err(_) => {
            o.count("real_loop_sessions_ended_by_a_panic", 1);
        }
    }
    if which == Which::Privacy {
        o.hit("real_loop_hidden_hop_data_absent");
        if let Some((kind, needle, row, frame)) = shared.leak.lock().unwrap().clone() {
            o.violate("real_loop_hidden_hop_data_absent", format!("{kind}|real-loop"), format!("{ctx}: {kind} {needle:?} of a hop with ttl <= {privacy:?} on screen in frame {frame}: {row:?}"), replay.clone());
        }
        o.count("real_loop_frames_scanned", shared.frames_scanned.load(Ordering::Relaxed));
        o.count("real_loop_frames_showing_a_visible_hop", shared.frames_with_visible_hop_data.load(Ordering::Relaxed));
    }
    for t in shared.titles_seen.lock().unwrap().iter() {
        o.observe("real_loop_panels_drawn", (*t).to_string());
    }
    o.count("real_loop_draws", shared.draws.load(Ordering::SeqCst));
    o.count("real_loop_keys_typed", keys_sent.load(Ordering::Relaxed));
    o.count("real_loop_sessions", 1);
    if stalled.load(Ordering::SeqCst) {
        o.count("real_loop_sessions_stalled", 1);
    }
    o.nontrivial = Some(format!("{site}|{}|{}|loop{i}", setup.address_mode, setup.columns));
    let _: Option<IpAddr> = None;
    o
}

fn outcome_to_json(i: usize, o: &Outcome) -> Value {
    json!({
        "i": i,
        "violations": o.violations.iter().map(|v| json!({"clause": v.clause, "site": v.site, "detail": v.detail, "replay": v.replay})).collect::<Vec<_>>(),
        "hits": o.hits,
        "counters": o.counters,
        "sets": o.sets,
        "nontrivial": o.nontrivial,
        "harness_error": o.harness_error,
    })
}

/// Entry point of the child process: `vcheck __loop-child <C17|C18> <seed> <tier> <first> <count>`.
pub fn child_main(args: &[String]) -> i32 {
    let which = if args.first().map(String::as_str) == Some("C18") { Which::Privacy } else { Which::Crash };
    let seed: u64 = args.get(1).and_then(|s| s.parse().ok()).unwrap_or(1);
    let tier = if args.get(2).map(String::as_str) == Some("thorough") { Tier::Thorough } else { Tier::Quick };
    let first: usize = args.get(3).and_then(|s| s.parse().ok()).unwrap_or(0);
    let count: usize = args.get(4).and_then(|s| s.parse().ok()).unwrap_or(1);
    let pty = match Pty::open_as_stdin() {
        Ok(p) => p,
        Err(e) => {
            println!("{}", json!({"fatal": format!("pty: {e}")}));
            return 4;
        }
    };
    for i in first..first + count {
        println!("{}", json!({"start": i}));
        let o = child_session(&pty, seed, i, tier, which);
        println!("{}", outcome_to_json(i, &o));
    }
    0
}

// ------------------------------------------------------------------------------------------------
// parent side

/// Run `n` real-loop sessions in child processes and merge their outcomes.
pub fn run_children(seed: u64, tier: Tier, which: Which, n: usize, only: Option<usize>) -> Vec<Outcome> {
    use std::io::{BufRead, BufReader};
    use std::process::{Command, Stdio};
    let exe = std::env::current_exe().expect("current_exe");
    let id = if which == Which::Crash { "C17" } else { "C18" };
    let workers = 16usize.min(n.max(1));
    let (first_all, n) = match only {
        Some(i) => (i, 1),
        None => (0, n),
    };
    let per = n.div_ceil(workers);
    let mut handles = Vec::new();
    for w in 0..workers {
        let first = first_all + w * per;
        let count = per.min((first_all + n).saturating_sub(first));
        if count == 0 {
            continue;
        }
        let exe = exe.clone();
        handles.push(std::thread::spawn(move || {
            let mut outs: Vec<Outcome> = Vec::new();
            let mut next = first;
            // a child that stalls or dies is replaced by a fresh one for the remaining sessions
            while next < first + count {
                let mut child = match Command::new(&exe)
                    .args(["__loop-child", id, &seed.to_string(), tier.name(), &next.to_string(), &(first + count - next).to_string()])
                    .stdin(Stdio::null())
                    .stdout(Stdio::piped())
                    .stderr(Stdio::null())
                    .spawn()
                {
                    Ok(c) => c,
                    Err(e) => {
                        let mut o = Outcome::default();
                        o.harness_error = Some(format!("spawn: {e}"));
                        outs.push(o);
                        return outs;
                    }
                };
                let stdout = child.stdout.take().unwrap();
                let mut started: Option<usize> = None;
                let mut finished: Option<usize> = None;
                for line in BufReader::new(stdout).lines().map_while(Result::ok) {
                    let Ok(v) = serde_json::from_str::<Value>(&line) else { continue };
                    if let Some(s) = v.get("start").and_then(Value::as_u64) {
                        started = Some(s as usize);
                        continue;
                    }
                    if v.get("stalled").is_some() {
                        let mut o = Outcome::default();
                        o.count("real_loop_sessions_stalled", 1);
                        o.count("real_loop_sessions", 1);
                        o.observe("real_loop_stalled_sessions", format!("{}", v["i"]));
                        outs.push(o);
                        finished = v["i"].as_u64().map(|x| x as usize);
                        continue;
                    }
                    if let Some(f) = v.get("fatal") {
                        let mut o = Outcome::default();
                        o.harness_error = Some(format!("child: {f}"));
                        outs.push(o);
                        continue;
                    }
                    let Some(i) = v.get("i").and_then(Value::as_u64) else { continue };
                    finished = Some(i as usize);
                    let mut o = Outcome::default();
                    for viol in v["violations"].as_array().cloned().unwrap_or_default() {
                        let clause: &'static str = match viol["clause"].as_str().unwrap_or("") {
                            "no_panic" => "no_panic",
                            "real_loop_hidden_hop_data_absent" => "real_loop_hidden_hop_data_absent",
                            _ => "real_loop_session_completes",
                        };
                        o.violate(clause, viol["site"].as_str().unwrap_or("").to_string(), viol["detail"].as_str().unwrap_or("").to_string(), viol["replay"].clone());
                    }
                    if let Some(h) = v["hits"].as_object() {
                        for (k, n) in h {
                            if let Some(c) = static_clause(k) {
                                o.hit_n(c, n.as_u64().unwrap_or(0));
                            }
                        }
                    }
                    if let Some(c) = v["counters"].as_object() {
                        for (k, n) in c {
                            o.count(k, n.as_u64().unwrap_or(0));
                        }
                    }
                    if let Some(s) = v["sets"].as_object() {
                        for (k, items) in s {
                            for it in items.as_array().cloned().unwrap_or_default() {
                                o.observe(k, it.as_str().unwrap_or("").to_string());
                            }
                        }
                    }
                    o.nontrivial = v["nontrivial"].as_str().map(str::to_string);
                    o.harness_error = v["harness_error"].as_str().map(str::to_string);
                    outs.push(o);
                }
                let status = child.wait().ok();
                let clean = status.as_ref().is_some_and(|s| s.code() == Some(0));
                if clean {
                    break;
                }
                // the child ended early: at session `started` (if it had not finished it)
                match (started, finished) {
                    (Some(s), f) if f != Some(s) => {
                        // died inside session s without reporting: abort / stack overflow / kill
                        let mut o = Outcome::default();
                        let sig = status.as_ref().and_then(std::os::unix::process::ExitStatusExt::signal);
                        if which == Which::Crash && sig.is_some() {
                            o.violate(
                                "no_panic",
                                format!("real-loop|process-killed-by-signal-{}", sig.unwrap_or(0)),
                                format!("the process running the real event loop died with signal {sig:?} in session {s}"),
                                json!({"how": format!("vcheck {id} --seed {seed} --only loop:{s}")}),
                            );
                        } else {
                            o.count("real_loop_sessions_stalled", 1);
                        }
                        o.count("real_loop_sessions", 1);
                        outs.push(o);
                        next = s + 1;
                    }
                    (_, Some(f)) => next = f + 1,
                    _ => break,
                }
            }
            outs
        }));
    }
    handles.into_iter().flat_map(|h| h.join().unwrap_or_default()).collect()
}
