//! C06 - probe scheduling discipline: TTL order, limits and in-flight window.
use crate::e2e::{replay_of, run_guarded};
use crate::framework::{Outcome, Report, Tier};
use crate::oracles::check_scheduling;
use crate::prng::Prng;
use crate::scen::{self, ms, world_cfg, Cell};
use crate::truth::analyse;
use crate::world::{Behaviour, HopSpec, Quote, TcpMode, Topology};
use serde_json::json;
use trippy_core::{MultipathStrategy, Protocol};

pub fn run_scenario(seed: u64, i: usize, tier: Tier) -> Outcome {
    let mut o = Outcome::default();
    let mut r = Prng::new(seed ^ (i as u64).wrapping_mul(0x9E37_79B9_7F4A_7C15) ^ 0xC06);
    let protocol = *r.pick(&[Protocol::Icmp, Protocol::Udp, Protocol::Tcp]);
    let v6 = r.chance(1, 3);
    let mut cell = Cell {
        protocol,
        v6,
        strategy: MultipathStrategy::Classic,
        ports: match protocol {
            Protocol::Icmp => 0,
            Protocol::Udp => 1,
            Protocol::Tcp => 2,
        },
        unprivileged: false,
        ext: false,
    };
    // one scenario in four: any other cell (Paris / Dublin, every port direction, unprivileged)
    if r.chance(1, 4) {
        let all: Vec<Cell> = scen::all_cells(false).into_iter().filter(|c| !c.ext).collect();
        cell = *r.pick(&all);
    }
    let (protocol, v6) = (cell.protocol, cell.v6);
    let mut tcfg = cell.trace_cfg();
    let read_ms = *r.pick(&[1u64, 10]);
    let round_ms = *r.pick(&[100u64, 300]);
    tcfg.read_timeout = ms(read_ms);
    tcfg.min_round = ms(round_ms);
    tcfg.max_round = ms(round_ms);
    tcfg.grace = ms(*r.pick(&[0u64, 10]));
    tcfg.tcp_connect_timeout = ms(round_ms);
    tcfg.max_rounds = Some(tier.pick(5, 12));
    tcfg.first_ttl = *r.pick(&[1u8, 1, 2, 5, 24, 25, 64, 200, 254]);
    let span = *r.pick(&[0u8, 1, 10, 63, 253]);
    tcfg.max_ttl = tcfg.first_ttl.saturating_add(span).min(254);
    tcfg.max_inflight = *r.pick(&[1u8, 2, 3, 24, 64, 255]);
    // path length relative to the probed window
    let dist: usize = match r.below(4) {
        0 => usize::from(tcfg.first_ttl),
        1 => usize::from(tcfg.first_ttl) + r.below(u64::from(span) + 1) as usize,
        2 => usize::from(tcfg.max_ttl).saturating_add(r.range(1, 5) as usize),
        _ => r.range(1, 40) as usize,
    }
    .clamp(1, 254);
    // responses arriving before / between / after sends
    let delay_ns = match r.below(4) {
        0 => 100_000,
        1 => read_ms * 500_000,
        2 => read_ms * 3_000_000,
        _ => round_ms * 1_200_000,
    };
    let silent_prefix = if r.chance(1, 3) { r.below(dist as u64) as usize } else { 0 };
    let hops: Vec<HopSpec> = (0..dist - 1)
        .map(|h| {
            let mut s = HopSpec::simple(scen::hop_addr(v6, h, 0), delay_ns + r.below(delay_ns / 2 + 1));
            s.quote = Quote::Full;
            if h < silent_prefix {
                s.behaviour = Behaviour::Silent;
            } else if r.chance(1, 10) {
                s.behaviour = Behaviour::Silent;
            }
            if r.chance(1, 6) {
                s.loss_pct = 40;
            }
            s
        })
        .collect();
    let mut t = HopSpec::simple(tcfg.target, delay_ns + r.below(delay_ns + 1));
    t.quote = Quote::Full;
    // target responses arriving out of order (jitter) or partially lost
    if r.chance(1, 2) {
        t.delay_ns.1 = t.delay_ns.0 * 3 + 2_000_000;
    }
    if r.chance(1, 4) {
        t.loss_pct = 40;
    }
    if r.chance(1, 6) {
        t.behaviour = Behaviour::Silent;
    }
    let target_answers = t.behaviour == Behaviour::Respond;
    let topo = Topology { hops, target: t, tcp: *r.pick(&[TcpMode::SynAck, TcpMode::Rst]) };
    let mut wcfg = world_cfg(topo, seed ^ i as u64);
    if protocol == Protocol::Tcp && r.chance(1, 2) {
        wcfg.faults.bind_in_use_pct = r.range(10, 50) as u8;
    }
    // uneven ECMP: half of the flows (classic UDP / TCP change ports per probe) cross 1..3 more
    // routers, so that a router may answer for a ttl at or beyond the target's distance
    let uneven = protocol != Protocol::Icmp && r.chance(1, 5);
    if uneven {
        wcfg.long_branch_extra = r.range(1, 3) as u8;
    }
    // transient send failures (where the platform layer maps them to a failed probe)
    if crate::e2e::is_probe_failed_errno(protocol, v6, !cell.unprivileged, crate::world::Op::SendTo, libc::EHOSTUNREACH) && r.chance(1, 5) {
        for _ in 0..r.range(1, 12) {
            wcfg.faults.at_op.insert((crate::world::Op::SendTo, r.below(150) as usize), crate::world::Fault { errno: libc::EHOSTUNREACH });
        }
    }
    let site = format!("{}/first{}-max{}-inflight{}", cell.name(), tcfg.first_ttl, tcfg.max_ttl, tcfg.max_inflight);
    let replay = replay_of("C06", seed, i, &tcfg, &wcfg.topo);
    let Some((world, run)) = run_guarded(&wcfg, &tcfg, false, |_| {}, &mut o, &site, &replay, &format!("scenario {i}")) else {
        return o;
    };
    let w = world.inner.lock().unwrap();
    // a bind storm may legitimately exhaust the 512-sequence budget of a round (C07 judges that)
    let exhausted = wcfg.faults.bind_in_use_pct > 0 && matches!(&run.result, Err(e) if e.contains("insufficient buffer capacity"));
    if exhausted {
        o.count("runs_ended_by_sequence_budget_exhaustion", 1);
    } else if let Err(e) = &run.result {
        o.violate("run_completes", format!("{}|{}", cell.name(), e.split(':').next().unwrap_or("")), format!("run failed: {e}"), replay.clone());
    }
    let a = analyse(&w, 0, &run);
    let site2 = cell.name();
    let before = o.violations.len();
    check_scheduling(&w, &a, &run, &tcfg, &mut o, &site2, &replay, if target_answers && !uneven { Some(dist as u8) } else { None });
    let _ = before;
    let sends: usize = a.rounds.iter().map(|r| r.groups.len()).sum();
    o.count("sends_observed", sends as u64);
    o.count("rounds", run.rounds.len() as u64);
    let shape = format!(
        "first{}|span{}|inflight{}|dist{}|delay{}",
        tcfg.first_ttl,
        span,
        tcfg.max_inflight,
        if dist < usize::from(tcfg.first_ttl) { "below" } else if dist > usize::from(tcfg.max_ttl) { "beyond" } else { "inside" },
        delay_ns / 1_000_000
    );
    o.observe("config_shapes", shape.clone());
    if sends > run.rounds.len() {
        o.nontrivial = Some(format!("{}|{shape}", protocol));
    }
    if i < 2 {
        o.sample = Some(json!({"scenario": i, "site": site, "distance": dist, "delay_ns": delay_ns,
            "sends_round0": a.rounds.first().map(|r| r.groups.iter().map(|g| crate::oracles::group_ttl(&w, g)).collect::<Vec<_>>())}));
    }
    o
}

/// The limits reach the tracer: the tracer the application starts (its own `start_tracer`) runs
/// with the configured first-ttl / max-ttl / max-inflight, not with the library defaults.
fn application_job(seed: u64) -> Outcome {
    let mut o = Outcome::default();
    let mut r = crate::prng::Prng::new(seed ^ 0xA99);
    for k in 0..48 {
        let first = if k < 8 { 1 } else { r.range(1, 254) as u8 };
        let max = r.range(u64::from(first), 254) as u8;
        let inflight = if k < 8 { [1u8, 2, 3, 23, 24, 25, 64, 255][k] } else { r.range(1, 255) as u8 };
        let res = crate::framework::guarded(|| crate::props::c16::started_tracer_limits(first, max, inflight));
        match res {
            Ok(Ok(got)) => {
                o.hit("application_tracer_runs_with_the_configured_limits");
                if got != (first, max, inflight) {
                    o.violate(
                        "application_tracer_runs_with_the_configured_limits",
                        format!("{}{}{}", if got.0 != first { "first-ttl " } else { "" }, if got.1 != max { "max-ttl " } else { "" }, if got.2 != inflight { "max-inflight" } else { "" }).trim().to_string(),
                        format!("trip --first-ttl {first} --max-ttl {max} --max-inflight {inflight}: the started tracer has first-ttl {} max-ttl {} max-inflight {}", got.0, got.1, got.2),
                        json!({"how": format!("vcheck C06 --seed {seed}"), "first_ttl": first, "max_ttl": max, "max_inflight": inflight}),
                    );
                }
            }
            Ok(Err(e)) => o.count(&format!("application_configurations_not_started:{}", e.chars().take(40).collect::<String>()), 1),
            Err(p) if p.in_repo() => o.violate("no_panic", format!("application|{}", p.site()), format!("panic at {}:{}: {}", p.file, p.line, p.message), json!({"first_ttl": first, "max_ttl": max, "max_inflight": inflight})),
            Err(p) => o.harness_error = Some(format!("harness panic {}:{} {}", p.file, p.line, p.message)),
        }
    }
    o
}

const SCHED_CLAUSES: [&str; 6] = ["ttl_order_no_gaps", "never_above_max_ttl", "no_send_after_target_answered", "never_above_established_distance", "inflight_window", "every_round_sends_first_ttl"];

pub fn run(tier: Tier, seed: u64, only: Option<usize>) -> i32 {
    let mut rep = Report::new("C06", "exploration", tier, seed);
    rep.rule = "scenario = protocol x family x (first-ttl in {1,2,5,24,25,64,200,254}, max-ttl = first + {0,1,10,63,253}, max-inflight in {1,2,3,24,64,255}) x path length (at / inside / beyond the probed window) x response delay (before / between / after sends, beyond the round) x silent prefixes and lossy hops x uneven ECMP (half of the flows cross 1..3 more routers) x transient send failures; TCP with address-in-use re-issues; plus stale-slot worlds (late / never-sent sequences aimed at slots of earlier rounds, before and after a sequence wrap) judged by the same clauses; non-trivial = more sends than rounds; distinct by (protocol, configuration shape)".into();
    rep.assumptions = vec![
        "the in-flight clause is judged against the farthest genuine responder of the round (first-ttl - 1 if none), which is what the property states; the implementation is allowed to be stricter".into(),
        "'target distance established' = a genuine target response to the probe at the topology's true distance was read (paths here are stable)".into(),
    ];
    rep.required_clauses = vec!["ttl_order_no_gaps", "never_above_max_ttl", "no_send_after_target_answered", "never_above_established_distance", "inflight_window", "every_round_sends_first_ttl"];
    let n = tier.pick(30_000, 600_000);
    match only {
        Some(i) => {
            let o = run_scenario(seed, i, tier);
            for v in &o.violations {
                println!("{}: {}", v.signature(), v.detail);
            }
            rep.merge(o);
        }
        None => {
            // stale-slot worlds (the C03 workload: never-sent sequences aimed at buffer slots that
            // still hold an awaited probe of an earlier round, every other one after a sequence
            // wrap), judged by the scheduling clauses: a late or forged packet must not move the
            // farthest-responder / target-distance bookkeeping the send decision reads
            let cells = crate::scen::all_cells(false);
            let n_stale = tier.pick(96, 960);
            rep.run_parallel(n + n_stale, |i| {
                if i < n {
                    run_scenario(seed, i, tier)
                } else {
                    crate::props::c03::run_stale(seed ^ 0xC06, i - n, &cells, tier).retain_clauses(&SCHED_CLAUSES, "stale-slot")
                }
            });
            rep.merge(application_job(seed));
        }
    }
    rep.finish()
}
