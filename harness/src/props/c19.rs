//! C19 - NAT is flagged at the first hop that sees a rewritten datagram.
use crate::e2e::{check_outcomes, replay_of, run_guarded, E2eOpts};
use crate::framework::{Outcome, Report, Tier};
use crate::oracles::check_nat;
use crate::prng::Prng;
use crate::scen::{self, all_cells, ms, world_cfg, Cell};
use crate::truth::analyse;
use crate::world::{Behaviour, HopSpec, NatSpec, Quote, TcpMode, Topology};
use serde_json::json;
use std::net::Ipv4Addr;
use trippy_core::{MultipathStrategy, NatStatus, Protocol};

pub fn run_scenario(seed: u64, i: usize, tier: Tier) -> Outcome {
    let mut o = Outcome::default();
    let mut r = Prng::new(seed ^ (i as u64).wrapping_mul(0x9E37_79B9_7F4A_7C15) ^ 0xC19);
    // three quarters of the scenarios are IPv4/UDP/Dublin, the rest any other cell
    let cells = all_cells(false);
    let dublin4: Vec<Cell> = cells.iter().copied().filter(|c| c.protocol == Protocol::Udp && c.strategy == MultipathStrategy::Dublin && !c.v6).collect();
    let cell = if i % 4 != 3 { dublin4[(i / 4) % dublin4.len()] } else { cells[(i / 4) % cells.len()] };
    let mut tcfg = cell.trace_cfg();
    tcfg.min_round = ms(60);
    tcfg.max_round = ms(60);
    tcfg.grace = ms(2);
    tcfg.read_timeout = ms(1);
    tcfg.tcp_connect_timeout = ms(60);
    tcfg.max_rounds = Some(tier.pick(6, 20));
    tcfg.max_ttl = 20;
    let min_size: u16 = if cell.v6 { 48 } else { 28 };
    tcfg.packet_size = *r.pick(&[min_size, min_size + 1, 84, 300, 1024]).max(&min_size);
    tcfg.payload_pattern = *r.pick(&[0u8, 0x55, 0xff]);
    let dist = r.range(2, 12) as usize;
    // a boundary of one's complement arithmetic: in some IPv4 / Dublin worlds (no NAT) the port
    // that changes per round is chosen so that the UDP checksum of the probe computes to zero
    // in one of the first rounds
    let mut zero_csum = false;
    if i % 4 != 3 && !cell.unprivileged && i % 5 == 0 {
        let payload = vec![tcfg.payload_pattern; usize::from(tcfg.packet_size).saturating_sub(28)];
        let len = 8 + payload.len();
        let (fixed, varies_dest) = match tcfg.ports {
            trippy_core::PortDirection::FixedSrc(p) => (Some(p.0), true),
            trippy_core::PortDirection::FixedDest(p) => (Some(p.0), false),
            _ => (None, false),
        };
        if let (Some(fixed), std::net::IpAddr::V4(dst)) = (fixed, tcfg.target) {
            let pseudo = crate::wire::pseudo4(scen::HOST_V4, dst, crate::wire::PROTO_UDP, len);
            let found = (1024u16..64_000).find(|p| {
                let (sp, dp) = if varies_dest { (fixed, *p) } else { (*p, fixed) };
                let mut u = Vec::with_capacity(len);
                u.extend_from_slice(&sp.to_be_bytes());
                u.extend_from_slice(&dp.to_be_bytes());
                u.extend_from_slice(&(len as u16).to_be_bytes());
                u.extend_from_slice(&[0, 0]);
                u.extend_from_slice(&payload);
                crate::wire::csum(&[&pseudo, &u]) == 0
            });
            if let Some(p) = found {
                tcfg.initial_sequence = p - r.below(3) as u16;
                zero_csum = true;
            }
        }
    }
    let n_nat = if zero_csum { 0 } else { r.below(4) as usize };
    let mut nat_at: Vec<usize> = (0..n_nat).map(|_| r.below(dist as u64 - 1) as usize).collect();
    nat_at.sort_unstable();
    nat_at.dedup();
    let port_only = r.chance(1, 6);
    let hops: Vec<HopSpec> = (0..dist - 1)
        .map(|h| {
            let mut s = HopSpec::simple(scen::hop_addr(cell.v6, h, 0), r.range(100_000, 2_000_000));
            s.quote = *r.pick(&[Quote::Min8, Quote::Plus(28), Quote::Full]);
            if cell.v6 {
                s.quote = Quote::Full;
            }
            if r.chance(1, 5) {
                s.behaviour = Behaviour::Silent;
            }
            if !cell.v6 && nat_at.contains(&h) {
                s.nat = Some(NatSpec {
                    new_src: if port_only { scen::HOST_V4 } else { Ipv4Addr::new(100, 64, h as u8, r.range(1, 250) as u8) },
                    new_port: if port_only || r.chance(1, 2) { Some(r.range(1024, 65_000) as u16) } else { None },
                    quote_keeps_new_src: !port_only && r.chance(1, 4),
                });
            }
            s
        })
        .collect();
    let mut t = HopSpec::simple(tcfg.target, r.range(100_000, 2_000_000));
    t.quote = Quote::Full;
    let topo = Topology { hops, target: t, tcp: TcpMode::Rst };
    let wcfg = world_cfg(topo, seed ^ i as u64);
    let site = cell.name();
    if zero_csum {
        o.count("worlds_with_a_probe_whose_udp_checksum_computes_to_zero", 1);
    }
    let replay = replay_of("C19", seed, i, &tcfg, &wcfg.topo);
    let Some((world, run)) = run_guarded(&wcfg, &tcfg, true, |_| {}, &mut o, &site, &replay, &format!("scenario {i}")) else {
        return o;
    };
    let w = world.inner.lock().unwrap();
    if let Err(e) = &run.result {
        o.violate("run_completes", format!("{site}|{}", e.split(':').next().unwrap_or("")), format!("run failed: {e}"), replay.clone());
    }
    let a = analyse(&w, 0, &run);
    // (a NAT device rewrites the UDP checksum, which is where Paris carries the sequence: Paris
    // probes are not expected to be matched beyond a NAT and are not judged here)
    if cell.strategy != MultipathStrategy::Paris || nat_at.is_empty() {
        check_outcomes(&w, &a, &run, &tcfg, &mut o, &site, &replay, &E2eOpts { check_ext: false });
    }
    check_nat(&w, &a, &run, &tcfg, &mut o, &site, &replay);
    // derived clause: without rewriting devices a path never shows NAT
    let applicable = cell.protocol == Protocol::Udp && cell.strategy == MultipathStrategy::Dublin && !cell.v6;
    if applicable && nat_at.is_empty() {
        o.hit("no_rewriting_never_shows_nat");
        for round in &run.rounds {
            if let Some(s) = &round.snapshot {
                if let Some(h) = s.hops().iter().find(|h| h.last_nat_status() == NatStatus::Detected) {
                    o.violate("no_rewriting_never_shows_nat", site.clone(), format!("round {}: hop {} shows NAT on a path without rewriting devices", round.index, h.ttl()), replay.clone());
                    break;
                }
            }
        }
    }
    // a single rewriting device at distance k: only the first responding hop at or beyond k
    if applicable && nat_at.len() == 1 {
        let k = nat_at[0] as u8 + 1;
        o.hit("single_device_flagged_once_at_or_beyond_k");
        for (round, rt) in run.rounds.iter().zip(&a.rounds) {
            if let Some(s) = &round.snapshot {
                let responded: Vec<u8> = round.probes.iter().filter_map(|p| if let trippy_core::ProbeStatus::Complete(c) = p { Some(c.ttl.0) } else { None }).collect();
                let first_at_or_beyond = responded.iter().copied().filter(|t| *t >= k).min();
                // the device may happen not to change the checksum at all (the same port chosen
                // again, or an address whose one's complement sum equals the original's: one in
                // 65536): then there is nothing to detect and this derived clause does not apply
                let invisible = rt.reads.iter().any(|rd| {
                    let (Some(pid), Some(wid)) = (rd.pkt, rd.wire) else { return false };
                    Some(w.wires[wid].ttl) == first_at_or_beyond && rd.kind.is_some() && w.pkts[pid].quoted_udp_csum.is_some() && w.pkts[pid].quoted_udp_csum == w.wires[wid].udp_csum
                });
                if invisible {
                    o.count("rounds_in_which_the_rewrite_left_the_checksum_unchanged", 1);
                    continue;
                }
                for h in s.hops().iter().filter(|h| responded.contains(&h.ttl())) {
                    let want = Some(h.ttl()) == first_at_or_beyond;
                    if (h.last_nat_status() == NatStatus::Detected) != want {
                        o.violate("single_device_flagged_once_at_or_beyond_k", site.clone(), format!("round {}: device at {k}, hop {} status {:?}, first responder at/beyond k = {first_at_or_beyond:?}", round.index, h.ttl(), h.last_nat_status()), replay.clone());
                    }
                }
            }
        }
    }
    o.observe("nat_layouts", format!("{}|nats{}|{}", if applicable { "dublin4" } else { "other" }, nat_at.len(), if port_only { "port-only" } else { "addr" }));
    o.nontrivial = Some(format!("{site}|{nat_at:?}|{dist}|{port_only}"));
    if i < 3 {
        o.sample = Some(json!({"scenario": i, "cell": site, "distance": dist, "nat_devices_at": nat_at.iter().map(|x| x + 1).collect::<Vec<_>>(), "port_only": port_only,
            "statuses_last_round": run.rounds.last().and_then(|r| r.snapshot.as_ref()).map(|s| s.hops().iter().map(|h| format!("{}:{:?}", h.ttl(), h.last_nat_status())).collect::<Vec<_>>())}));
    }
    o
}

pub fn run(tier: Tier, seed: u64, only: Option<usize>) -> i32 {
    let mut rep = Report::new("C19", "exploration", tier, seed);
    rep.rule = "scenario = (IPv4/UDP/Dublin cell x port direction x privilege x extension mode | any other cell) x path of 2..12 hops with 0..3 NAT devices at arbitrary distances (source address rewritten, with or without port rewrite, one device in four leaving the rewritten source address in the datagrams it lets be quoted; one in six worlds rewrites only the port), silent hops before/after, one privileged Dublin/IPv4 world in five without NAT whose per-round port makes the probe's UDP checksum compute to zero in one of the first rounds, packet sizes {28,29,84,300,1024}, patterns {0,0x55,0xff}; ground truth per responding hop = UDP checksum in the quotation the simulator generated vs. that of the previous responder (first responder: vs. the checksum captured at send_to); distinct by (cell, device layout, distance)".into();
    rep.assumptions = vec![
        "a NAT device updates the UDP checksum incrementally (RFC 1624) and, on the return path, restores addresses and ports of the quoted datagram but not its checksum".into(),
        "the snapshot is taken inside the publish callback, so Hop::last_nat_status() of a hop that responded in the round is that round's status".into(),
    ];
    rep.required_clauses = vec!["nat_detected_iff_checksum_changed", "nat_detected_cases", "not_applicable_elsewhere", "no_rewriting_never_shows_nat", "single_device_flagged_once_at_or_beyond_k"];
    let n = tier.pick(50_000, 1_000_000);
    match only {
        Some(i) => {
            let o = run_scenario(seed, i, tier);
            for v in o.violations.iter().take(20) {
                println!("{}: {}", v.signature(), v.detail);
            }
            rep.merge(o);
        }
        None => {
            rep.run_parallel(n, |i| run_scenario(seed, i, tier));
            // synthetic histories (the C05 generator: Dublin checksums with NAT-like changes,
            // silent and failed probes, responses stamped before their probe because the wall
            // clock was stepped back), judged for the NAT flag only
            rep.run_parallel(tier.pick(4_000, 60_000), |i| crate::props::c05::history_focus(seed ^ 0xC19, i, tier, Some("last_nat_status")).retain_clauses(&["state_equals_reaggregation", "update_never_panics", "getters_never_panic"], "synthetic"));
        }
    }
    rep.finish()
}
