//! C15 - flow identifiers are stable, consistent and bounded.
use crate::e2e::{replay_of, run_guarded};
use crate::framework::{guarded, Outcome, Report, Tier};
use crate::prng::Prng;
use crate::reagg::{compare_flow, RefFlow};
use crate::scen::{self, all_cells, ms, world_cfg, Cell};
use crate::synth;
use crate::world::{Behaviour, Fault, HopSpec, Op, Quote, TcpMode, Topology};
use serde_json::{json, Value};
use std::collections::BTreeMap;
use std::net::{IpAddr, Ipv4Addr};
use std::time::{Duration, SystemTime};
use trippy_core::verif::{probe_new, StateConfig};
use trippy_core::{CompletionReason, Flags, FlowEntry, FlowId, IcmpPacketType, MultipathStrategy, Port, ProbeStatus, Protocol, Round, RoundId, Sequence, State, TimeToLive, TraceId};

/// Online monitor of the flow invariants over a sequence of (round, state after round).
pub struct FlowMonitor {
    first_ttl: u8,
    max_flows: usize,
    max_samples: usize,
    rounds: usize,
    prev_flows: Vec<(Vec<FlowEntry>, FlowId)>,
    prev_counts: BTreeMap<u64, usize>,
    refs: BTreeMap<u64, RefFlow>,
    pub attributed: u64,
    pub unattributed: u64,
    pub at_capacity_attributed: u64,
}

impl FlowMonitor {
    pub fn new(first_ttl: u8, max_flows: usize, max_samples: usize) -> Self {
        Self {
            first_ttl,
            max_flows,
            max_samples,
            rounds: 0,
            prev_flows: Vec::new(),
            prev_counts: BTreeMap::new(),
            refs: BTreeMap::new(),
            attributed: 0,
            unattributed: 0,
            at_capacity_attributed: 0,
        }
    }

    /// The addresses seen in a round by position (ttl - first ttl), for ttl <= largest_ttl.
    fn seen(&self, probes: &[ProbeStatus], largest: u8) -> Vec<(usize, IpAddr)> {
        probes
            .iter()
            .filter_map(|p| match p {
                ProbeStatus::Complete(c) if c.ttl.0 <= largest && c.ttl.0 >= self.first_ttl => Some((usize::from(c.ttl.0 - self.first_ttl), c.host)),
                _ => None,
            })
            .collect()
    }

    fn conflicts(entries: &[FlowEntry], seen: &[(usize, IpAddr)]) -> bool {
        seen.iter().any(|(p, a)| matches!(entries.get(*p), Some(FlowEntry::Known(b)) if b != a))
    }

    pub fn observe(&mut self, probes: &[ProbeStatus], largest: u8, state: &State, o: &mut Outcome, site: &str, replay: &Value) {
        self.rounds += 1;
        let ctx = format!("after round {}", self.rounds - 1);
        let flows: Vec<(Vec<FlowEntry>, FlowId)> = state.flows().iter().map(|(f, id)| (f.entries.clone(), *id)).collect();
        // ids are issued densely from 1 and never exceed the maximum
        o.hit("ids_dense_and_bounded");
        if flows.iter().enumerate().any(|(i, (_, id))| id.0 != i as u64 + 1) {
            o.violate("ids_dense_and_bounded", site, format!("{ctx}: flow ids {:?}", flows.iter().map(|f| f.1 .0).collect::<Vec<_>>()), replay.clone());
        }
        if flows.len() > self.max_flows {
            o.violate("ids_dense_and_bounded", format!("{site}|max"), format!("{ctx}: {} flows, maximum {}", flows.len(), self.max_flows), replay.clone());
        }
        // an id, once issued, denotes an extension of what it denoted before
        for (old, id) in &self.prev_flows {
            o.hit("flows_only_extend");
            match flows.iter().find(|(_, i)| i == id) {
                None => o.violate("flows_only_extend", site, format!("{ctx}: flow {id} disappeared"), replay.clone()),
                Some((new, _)) => {
                    let ok = new.len() >= old.len()
                        && old.iter().zip(new).all(|(a, b)| match (a, b) {
                            (FlowEntry::Known(x), FlowEntry::Known(y)) => x == y,
                            (FlowEntry::Known(_), FlowEntry::Unknown) => false,
                            (FlowEntry::Unknown, _) => true,
                        });
                    if !ok {
                        o.violate("flows_only_extend", site, format!("{ctx}: flow {id} changed from {old:?} to {new:?}"), replay.clone());
                    }
                }
            }
        }
        // the default flow aggregates every round
        o.hit("default_flow_counts_every_round");
        if state.round_count(State::default_flow_id()) != self.rounds {
            o.violate("default_flow_counts_every_round", site, format!("{ctx}: default flow counts {} rounds", state.round_count(State::default_flow_id())), replay.clone());
        }
        // which flow was this round attributed to (its round count went up by one)?
        let counts: BTreeMap<u64, usize> = flows.iter().map(|(_, id)| (id.0, state.round_count(*id))).collect();
        let bumped: Vec<u64> = counts.iter().filter(|(id, c)| **c == self.prev_counts.get(*id).copied().unwrap_or(0) + 1).map(|(id, _)| *id).collect();
        let changed: Vec<u64> = counts.iter().filter(|(id, c)| **c != self.prev_counts.get(*id).copied().unwrap_or(0)).map(|(id, _)| *id).collect();
        o.hit("round_attributed_to_at_most_one_flow");
        if changed.len() > 1 || bumped.len() != changed.len() {
            o.violate("round_attributed_to_at_most_one_flow", site, format!("{ctx}: round counts changed for flows {changed:?} ({:?} -> {counts:?})", self.prev_counts), replay.clone());
        }
        let seen = self.seen(probes, largest);
        let was_full = self.prev_flows.len() >= self.max_flows;
        match bumped.first() {
            Some(&f) => {
                self.attributed += 1;
                o.hit("attributed_flow_agrees_with_round");
                if state.round_flow_id().0 != f {
                    o.violate("attributed_flow_agrees_with_round", format!("{site}|round_flow_id"), format!("{ctx}: round counted under flow {f} but round_flow_id() is {}", state.round_flow_id()), replay.clone());
                }
                let entries = &flows.iter().find(|(_, id)| id.0 == f).unwrap().0;
                for (p, a) in &seen {
                    if entries.get(*p) != Some(&FlowEntry::Known(*a)) {
                        o.violate(
                            "attributed_flow_agrees_with_round",
                            site,
                            format!("{ctx}: responder {a} at position {p} (ttl {}) but flow {f} records {:?} there (flow {entries:?})", *p + usize::from(self.first_ttl), entries.get(*p)),
                            replay.clone(),
                        );
                        break;
                    }
                }
                if was_full {
                    self.at_capacity_attributed += 1;
                }
                self.refs.entry(f).or_default().apply(probes, largest);
            }
            None => {
                self.unattributed += 1;
                // no new flow may be created at capacity, but a round that matches an existing
                // flow must still be attributed to it
                o.hit("matching_round_attributed_at_capacity");
                if !was_full {
                    o.violate("matching_round_attributed_at_capacity", format!("{site}|below-capacity"), format!("{ctx}: round not attributed although only {} of {} flows exist", self.prev_flows.len(), self.max_flows), replay.clone());
                } else if let Some((_, id)) = self.prev_flows.iter().find(|(e, _)| !Self::conflicts(e, &seen)) {
                    o.violate(
                        "matching_round_attributed_at_capacity",
                        site,
                        format!("{ctx}: {} flows (the maximum); the round's responders {seen:?} agree with flow {id} but the round was not attributed to it", self.prev_flows.len()),
                        replay.clone(),
                    );
                }
            }
        }
        // each flow's statistics are those of exactly the rounds attributed to it
        for (id, r) in &self.refs {
            o.hit("flow_statistics_of_attributed_rounds");
            match guarded(|| compare_flow(state, FlowId(*id), r, self.max_samples)) {
                Ok(d) => {
                    if let Some((f, d)) = d.first() {
                        o.violate("flow_statistics_of_attributed_rounds", format!("{site}|{f}"), format!("{ctx}: flow {id}: {d}"), replay.clone());
                        break;
                    }
                }
                Err(p) => {
                    o.violate("flow_queries_never_panic", format!("{site}|{}", p.site()), format!("{ctx}: flow {id}: panic at {}:{}: {}", p.file, p.line, p.message), replay.clone());
                    break;
                }
            }
        }
        self.prev_flows = flows;
        self.prev_counts = counts;
    }
}

fn e2e_scenario(seed: u64, i: usize, tier: Tier) -> Outcome {
    let mut o = Outcome::default();
    let mut r = Prng::new(seed ^ (i as u64).wrapping_mul(0x9E37_79B9_7F4A_7C15) ^ 0xC15);
    let cells: Vec<Cell> = all_cells(false).into_iter().filter(|c| c.protocol == Protocol::Udp && c.strategy != MultipathStrategy::Classic && !c.ext).collect();
    let cell = cells[i % cells.len()];
    let mut tcfg = cell.trace_cfg();
    tcfg.min_round = ms(40);
    tcfg.max_round = ms(40);
    tcfg.grace = ms(2);
    tcfg.read_timeout = ms(1);
    tcfg.max_rounds = Some(tier.pick(60, 200));
    tcfg.first_ttl = *r.pick(&[1u8, 1, 1, 2, 4]);
    tcfg.max_ttl = 20;
    tcfg.max_flows = *r.pick(&[1usize, 2, 3, 8, 64]);
    tcfg.max_samples = 8;
    if cell.v6 {
        tcfg.packet_size = 104;
    }
    let dist = r.range(2, 10) as usize;
    let levels = r.range(1, 4) as usize;
    let hops: Vec<HopSpec> = (0..dist - 1)
        .map(|h| {
            let branches = if h % ((dist / levels).max(1)) == 0 { r.range(2, 8) as usize } else { 1 };
            let mut s = HopSpec::simple(scen::hop_addr(cell.v6, h, 0), r.range(100_000, 3_000_000));
            s.addrs = (0..branches).map(|b| scen::hop_addr(cell.v6, h, b)).collect();
            s.quote = Quote::Full;
            if r.chance(1, 6) {
                s.behaviour = Behaviour::Silent;
            }
            if r.chance(1, 6) {
                s.loss_pct = 30;
            }
            s
        })
        .collect();
    let mut t = HopSpec::simple(tcfg.target, r.range(100_000, 3_000_000));
    t.quote = Quote::Full;
    let topo = Topology { hops, target: t, tcp: TcpMode::Rst };
    let mut wcfg = world_cfg(topo, seed ^ i as u64);
    // transient send failures (IPv4 raw sockets map host / net unreachable to a failed probe)
    if !cell.v6 && r.chance(1, 2) {
        for _ in 0..r.range(1, 6) {
            wcfg.faults.at_op.insert((Op::SendTo, r.below(300) as usize), Fault { errno: libc::EHOSTUNREACH });
        }
    }
    let site = format!("{}/maxflows{}", cell.name(), tcfg.max_flows);
    let replay = replay_of("C15", seed, i, &tcfg, &wcfg.topo);
    let Some((_world, run)) = run_guarded(&wcfg, &tcfg, true, |_| {}, &mut o, &site, &replay, &format!("scenario {i}")) else {
        return o;
    };
    if let Err(e) = &run.result {
        o.violate("run_completes", format!("{}|{}", cell.name(), e.split(':').next().unwrap_or("")), format!("run failed: {e}"), replay.clone());
    }
    let mut m = FlowMonitor::new(tcfg.first_ttl, tcfg.max_flows, tcfg.max_samples);
    let site2 = cell.name();
    for round in &run.rounds {
        if let Some(s) = &round.snapshot {
            m.observe(&round.probes, round.largest_ttl, s, &mut o, &site2, &replay);
        }
        if o.violations.len() > 3 {
            break;
        }
    }
    let nflows = run.final_state.flows().len();
    o.count("rounds_attributed", m.attributed);
    o.count("rounds_not_attributed", m.unattributed);
    o.count("rounds_attributed_at_capacity", m.at_capacity_attributed);
    o.observe("flow_counts_seen", format!("{}", nflows.min(64)));
    let failed = run.rounds.iter().flat_map(|r| &r.probes).filter(|p| matches!(p, ProbeStatus::Failed(_))).count();
    o.count("failed_probes_in_rounds", failed as u64);
    if nflows >= 2 || (tcfg.max_flows == 1 && nflows == 1) {
        o.nontrivial = Some(format!("{site}|flows{nflows}|first{}|dist{dist}", tcfg.first_ttl));
    }
    if i < 2 {
        o.sample = Some(json!({"scenario": i, "site": site, "first_ttl": tcfg.first_ttl, "distance": dist, "flows": run.final_state.flows().iter().take(4).map(|(f, id)| format!("{id}: {f}")).collect::<Vec<_>>()}));
    }
    o
}

fn synthetic(seed: u64, i: usize, tier: Tier) -> Outcome {
    let mut o = Outcome::default();
    let mut r = Prng::new(seed ^ (i as u64).wrapping_mul(0xD134_2543_DE82_EF95) ^ 0x515);
    let max_flows = *r.pick(&[1usize, 2, 3, 8, 64]);
    let first = *r.pick(&[1u8, 1, 2, 5]);
    let paths = r.range(1, 6) as u8;
    let len = r.range(1, 8) as u8;
    // one history in three goes through a real Tracer (its own state construction, and a
    // clear() in the middle of the history: the limits must be the configured ones afterwards too)
    let via_tracer = i % 3 == 0;
    let max_samples = if via_tracer { *r.pick(&[2usize, 4, 9]) } else { 4 };
    let tracer = if via_tracer {
        trippy_core::Builder::new(IpAddr::V4(Ipv4Addr::new(10, 200, 0, 1))).max_flows(max_flows).max_samples(max_samples).build().ok()
    } else {
        None
    };
    let clear_at = r.range(5, 60) as usize;
    // one history in four begins with rounds in which nothing answers
    let silent_start = i % 4 == 1;
    let mut state = State::new(StateConfig { max_samples, max_flows });
    let mut m = FlowMonitor::new(first, max_flows, max_samples);
    let site = format!("synthetic/maxflows{max_flows}{}", if via_tracer { "/tracer" } else { "" });
    let replay = json!({"how": format!("vcheck C15 --seed {seed} --only s{i}"), "scenario": format!("s{i}")});
    let t0 = SystemTime::UNIX_EPOCH + Duration::from_secs(1_700_000_000);
    let rounds = tier.pick(100, 300);
    for k in 0..rounds {
        let path = r.below(u64::from(paths)) as u8;
        let n = if r.chance(1, 4) { r.range(1, u64::from(len)) as u8 } else { len };
        let skipped_before: Option<u8> = if n > 1 && r.chance(1, 6) { Some(r.range(1, u64::from(n) - 1) as u8) } else { None };
        let mut probes: Vec<ProbeStatus> = Vec::new();
        for j in 0..n {
            // a TCP style re-issue: an abandoned (skipped) slot precedes the probe of the same ttl
            if skipped_before == Some(j) {
                probes.push(ProbeStatus::Skipped);
            }
            let ttl = first + j;
            let p = probe_new(Sequence(1000 + u16::from(j)), TraceId(1), Port(1), Port(2), TimeToLive(ttl), RoundId(k), t0, Flags::empty());
            probes.push(if r.chance(1, 5) || (silent_start && k < 2) {
                ProbeStatus::Awaited(p)
            } else if r.chance(1, 20) {
                ProbeStatus::Failed(synth::failed(p))
            } else {
                // paths share some hops and differ in others
                let branch = if j % 2 == 1 { path } else { 0 };
                ProbeStatus::Complete(synth::complete(p, IpAddr::V4(Ipv4Addr::new(10, ttl, branch, 1)), t0 + Duration::from_millis(3), IcmpPacketType::NotApplicable, None, None, None, None))
            });
        }
        // (a round in which nothing answered is published with path length 0, as the strategy does)
        let answered = probes.iter().any(|p| matches!(p, ProbeStatus::Complete(_)));
        let largest = if answered { first + n - 1 } else { 0 };
        let round = Round::new(&probes, TimeToLive(largest), CompletionReason::TargetFound);
        let applied = match &tracer {
            Some(t) => guarded(|| {
                if k == clear_at {
                    t.clear();
                }
                t.verif_apply_round(&round);
                t.snapshot()
            })
            .map(|s| state = s),
            None => guarded(|| state.update_from_round(&round)),
        };
        if tracer.is_some() && k == clear_at {
            m = FlowMonitor::new(first, max_flows, max_samples);
            o.count("histories_with_a_clear_in_the_middle", 1);
        }
        if let Err(p) = applied {
            o.violate("flow_queries_never_panic", format!("{site}|update|{}", p.site()), format!("round {k}: panic at {}:{}: {}", p.file, p.line, p.message), replay.clone());
            return o;
        }
        m.observe(&probes, largest, &state, &mut o, &site, &replay);
        if o.violations.len() > 3 {
            break;
        }
    }
    o.count("rounds_attributed", m.attributed);
    o.count("rounds_not_attributed", m.unattributed);
    o.count("rounds_attributed_at_capacity", m.at_capacity_attributed);
    o.observe("flow_counts_seen", format!("{}", state.flows().len()));
    o.nontrivial = Some(format!("{site}|paths{paths}|len{len}|first{first}|{i}"));
    o
}

pub fn run(tier: Tier, seed: u64, only: Option<String>) -> i32 {
    let mut rep = Report::new("C15", "exploration", tier, seed);
    rep.rule = "e2e history = UDP Paris / Dublin cell x ECMP world (2..8 branches at 1..4 levels, silent and lossy hops) x first-ttl in {1,2,4} x max-flows in {1,2,3,8,64} x transient send failures, 60..200 rounds with a snapshot after each; synthetic history = 100..300 rounds over 1..6 partially overlapping paths with awaited, failed and skipped (re-issued) probes and varying lengths through State::update_from_round (one in three through a real Tracer with a clear() in the middle of the history); an online monitor checks after every round: ids dense from 1 and <= max, every previously issued flow only extended, the round counted under at most one flow whose entries agree by position (ttl - first-ttl) with every responder, matching rounds still attributed at capacity, default flow counts every round, and each flow's statistics equal the re-aggregation of exactly its rounds; distinct by (cell, max-flows, flows seen, first-ttl, distance)".into();
    rep.assumptions = vec![
        "position in a flow = ttl - first-ttl; responders beyond the round's path length are not part of the flow".into(),
        "'matches an existing flow' = no position where the flow records a different known address than the round".into(),
    ];
    rep.required_clauses = vec![
        "ids_dense_and_bounded",
        "flows_only_extend",
        "default_flow_counts_every_round",
        "attributed_flow_agrees_with_round",
        "matching_round_attributed_at_capacity",
        "flow_statistics_of_attributed_rounds",
    ];
    let n = tier.pick(3000, 40_000);
    let m = tier.pick(5000, 80_000);
    match only {
        Some(s) if s.starts_with('s') => {
            let o = synthetic(seed, s[1..].parse().unwrap_or(0), tier);
            for v in o.violations.iter().take(20) {
                println!("{}: {}", v.signature(), v.detail);
            }
            rep.merge(o);
        }
        Some(s) => {
            let o = e2e_scenario(seed, s.parse().unwrap_or(0), tier);
            for v in o.violations.iter().take(20) {
                println!("{}: {}", v.signature(), v.detail);
            }
            rep.merge(o);
        }
        None => rep.run_parallel(n + m, |i| if i < n { e2e_scenario(seed, i, tier) } else { synthetic(seed, i - n, tier) }),
    }
    rep.finish()
}
