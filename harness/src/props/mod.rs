pub mod c01;
