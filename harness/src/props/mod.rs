pub mod c01;
pub mod c03;
pub mod c06;
pub mod c08;
pub mod c09;
