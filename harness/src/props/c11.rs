//! C11 - every probe put on the wire is well-formed and as configured.
use crate::e2e::{replay_of, run_guarded};
use crate::framework::{Outcome, Report, Tier};
use crate::oracles::check_wire;
use crate::prng::Prng;
use crate::scen::{all_cells, ms, world_cfg};
use crate::truth::analyse;
use crate::world::{Behaviour, HopSpec, TcpMode, Topology};
use serde_json::json;
use trippy_core::{MultipathStrategy, Protocol};

pub fn run_scenario(seed: u64, i: usize, tier: Tier) -> Outcome {
    let mut o = Outcome::default();
    let cells = all_cells(false);
    let cell = cells[i % cells.len()];
    let mut r = Prng::new(seed ^ (i as u64).wrapping_mul(0x9E37_79B9_7F4A_7C15) ^ 0xC11);
    let mut tcfg = cell.trace_cfg();
    let min_size: u16 = if cell.v6 { 48 } else { 28 };
    let k = i / cells.len();
    tcfg.packet_size = match tier {
        Tier::Quick => [min_size, min_size + 1, if cell.v6 { 104 } else { 84 }, 1023, 1024][k % 5],
        Tier::Thorough => min_size + (k as u16 * 7 + r.below(7) as u16) % (1025 - min_size),
    };
    let (x1, x2, x3, x4) = (r.below(256) as u8, r.below(256) as u8, r.range(1, 65_535) as u16, r.below(64_512) as u16);
    tcfg.tos = if cell.v6 { 0 } else { *r.pick(&[0u8, 1, 0xfc, 0xff, x1]) };
    tcfg.payload_pattern = *r.pick(&[0u8, 0x55, 0xff, x2]);
    tcfg.trace_id = *r.pick(&[1u16, 1234, 0xffff, x3]);
    tcfg.initial_sequence = *r.pick(&[0u16, 33434, 64_511, 64_257, x4]);
    tcfg.first_ttl = 1;
    tcfg.max_ttl = 254;
    tcfg.max_inflight = 255;
    tcfg.read_timeout = ms(1);
    tcfg.min_round = ms(300);
    tcfg.max_round = ms(300);
    tcfg.tcp_connect_timeout = ms(100);
    tcfg.max_rounds = Some(tier.pick(3, 12));
    // nothing answers: every ttl 1..254 is put on the wire in every round
    let mut t = HopSpec::simple(tcfg.target, 1_000_000);
    t.behaviour = Behaviour::Silent;
    let topo = Topology { hops: Vec::new(), target: t, tcp: TcpMode::Silent };
    let wcfg = world_cfg(topo, seed ^ i as u64);
    let site = cell.name();
    let replay = replay_of("C11", seed, i, &tcfg, &wcfg.topo);
    let Some((world, run)) = run_guarded(&wcfg, &tcfg, false, |_| {}, &mut o, &site, &replay, &format!("scenario {i}")) else {
        return o;
    };
    let w = world.inner.lock().unwrap();
    if let Err(e) = &run.result {
        o.violate("run_completes", format!("{site}|{}", e.split(':').next().unwrap_or("")), format!("run failed: {e}"), replay.clone());
    }
    let a = analyse(&w, 0, &run);
    check_wire(&w, &a, &run, &tcfg, &mut o, &site, &replay);
    let ttls: std::collections::BTreeSet<u8> = w.wires.iter().map(|x| x.ttl).collect();
    o.count("wire_packets_checked", w.wires.len() as u64);
    o.count("distinct_ttls_in_scenario", ttls.len() as u64);
    o.observe("cells", site.clone());
    o.observe("packet_sizes", tcfg.packet_size.to_string());
    o.observe("tos_values", tcfg.tos.to_string());
    if !w.wires.is_empty() {
        o.nontrivial = Some(format!("{site}|size{}|tos{}|pat{}", tcfg.packet_size, tcfg.tos, tcfg.payload_pattern));
    }
    if i < 3 {
        o.sample = Some(json!({"scenario": i, "cell": site, "packet_size": tcfg.packet_size, "tos": tcfg.tos, "pattern": tcfg.payload_pattern,
            "first_wire_packets": w.wires.iter().take(3).map(|x| json!({"ttl": x.ttl, "bytes": crate::wire::hex(&x.bytes[..x.bytes.len().min(64)])})).collect::<Vec<_>>()}));
    }
    let _ = (Protocol::Icmp, MultipathStrategy::Classic);
    o
}

pub fn run(tier: Tier, seed: u64, only: Option<usize>) -> i32 {
    let mut rep = Report::new("C11", "exploration", tier, seed);
    rep.rule = "scenario = configuration cell x packet size (quick: min, min+1, default, 1023, 1024; thorough: every size) x tos x payload pattern x trace id x initial sequence, over a silent network with first-ttl 1, max-ttl 254, max-inflight 255 so that every ttl 1..254 is dispatched in every round; each datagram (the buffer handed to the raw socket, or the datagram the simulated kernel built from bind / ttl / tos / connect options) is decoded by the independent RFC decoder; distinct by (cell, size, tos, pattern)".into();
    rep.assumptions = vec![
        "for non-raw sockets (TCP, unprivileged UDP, IPv6) the network-layer header is built by the simulated kernel from the socket options trippy set; the checks then concern those options".into(),
        "IPv6: trippy does not set a traffic class; only hop limit, addresses, lengths and checksums are judged".into(),
    ];
    rep.required_clauses = vec!["wire_packet_decodes", "icmp_probe_fields", "udp_probe_fields", "tcp_probe_fields"];
    let cells = all_cells(false).len();
    let n = cells * tier.pick(30, 500);
    match only {
        Some(i) => {
            let o = run_scenario(seed, i, tier);
            for v in &o.violations {
                println!("{}: {}", v.signature(), v.detail);
            }
            rep.merge(o);
        }
        None => rep.run_parallel(n, |i| run_scenario(seed, i, tier)),
    }
    rep.finish()
}
