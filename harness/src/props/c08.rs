//! C08 - rounds end exactly when the timing policy says.
use crate::e2e::{replay_of, run_guarded};
use crate::framework::{Outcome, Report, Tier};
use crate::oracles::{check_timing, loop_start};
use crate::prng::Prng;
use crate::scen::{self, ms, world_cfg, Cell};
use crate::truth::analyse;
use crate::world::{Behaviour, HopSpec, Quote, TcpMode, Topology};
use serde_json::json;
use trippy_core::{MultipathStrategy, Protocol};

pub fn run_scenario(seed: u64, i: usize, tier: Tier) -> Outcome {
    let mut o = Outcome::default();
    let mut r = Prng::new(seed ^ (i as u64).wrapping_mul(0x9E37_79B9_7F4A_7C15) ^ 0xC08);
    let protocol = *r.pick(&[Protocol::Icmp, Protocol::Icmp, Protocol::Udp, Protocol::Tcp]);
    let v6 = r.chance(1, 4);
    let cell = Cell {
        protocol,
        v6,
        strategy: MultipathStrategy::Classic,
        ports: match protocol {
            Protocol::Icmp => 0,
            Protocol::Udp => 1,
            Protocol::Tcp => 2,
        },
        unprivileged: false,
        ext: false,
    };
    let mut tcfg = cell.trace_cfg();
    let min = *r.pick(&[0u64, 50, 1000]);
    let max = *r.pick(&[min, min + 1, min + 40, 5000]);
    let grace = *r.pick(&[0u64, 10, 100, 1000]);
    let rt = *r.pick(&[1u64, 10, 100]);
    tcfg.min_round = ms(min);
    tcfg.max_round = ms(max);
    tcfg.grace = ms(grace);
    tcfg.read_timeout = ms(rt);
    tcfg.tcp_connect_timeout = ms(max.max(50));
    tcfg.max_rounds = Some(tier.pick(6, 10));
    tcfg.max_ttl = 8;
    // place the responses relative to min / max / grace
    let place = |r: &mut Prng| -> Option<u64> {
        let us = match r.below(7) {
            0 => return None,
            1 => 100,
            2 => min * 200,
            3 => min * 900 + 50,
            4 => min * 1000 + (max - min) * 500 + 100,
            5 => (max * 1000).saturating_sub(grace * 500) + 10,
            _ => max * 1000 + r.range(1, 20_000),
        };
        Some(us.max(50) * 1000)
    };
    let dist = r.range(1, 4) as usize;
    let hops: Vec<HopSpec> = (0..dist - 1)
        .map(|h| {
            let d = place(&mut r);
            let mut s = HopSpec::simple(scen::hop_addr(v6, h, 0), d.unwrap_or(1_000_000));
            s.quote = Quote::Full;
            if d.is_none() {
                s.behaviour = Behaviour::Silent;
            }
            s
        })
        .collect();
    let dt = place(&mut r);
    let mut t = HopSpec::simple(tcfg.target, dt.unwrap_or(1_000_000));
    t.quote = Quote::Full;
    if dt.is_none() {
        t.behaviour = Behaviour::Silent;
    }
    // jitter so that consecutive rounds differ
    if r.chance(1, 2) {
        t.delay_ns.1 = t.delay_ns.0 + r.range(0, 30_000_000);
    }
    // duplicated responses (a second copy some time after the first): they complete nothing and
    // must not move the timing either
    let mut hops = hops;
    if r.chance(1, 4) {
        for h in hops.iter_mut().chain(std::iter::once(&mut t)) {
            h.dup_pct = 60;
            h.dup_delay_ns = (1_000, (grace.max(2) * 1_500_000).max(2_000));
        }
    }
    let topo = Topology { hops, target: t, tcp: *r.pick(&[TcpMode::SynAck, TcpMode::Rst]) };
    let wcfg = world_cfg(topo, seed ^ i as u64);
    let site = cell.name();
    let replay = replay_of("C08", seed, i, &tcfg, &wcfg.topo);
    // unrelated traffic: in one scenario in five the host receives an ICMP echo *request* (which
    // the tracer ignores) every half read timeout for the whole round - the round must still end
    // on time
    let noisy = r.chance(1, 5) && max / rt <= 200 && max >= rt;
    let (first_ttl, tc_v6) = (tcfg.first_ttl, v6);
    let n_noise = (2 * (max + grace.min(max)) / rt.max(1) + 4) as u64;
    let install = move |world: &std::sync::Arc<crate::world::World>| {
        if !noisy {
            return;
        }
        let (host4, host6) = {
            let w = world.inner.lock().unwrap();
            (w.cfg.host_v4, w.cfg.host_v6)
        };
        world.inner.lock().unwrap().inject_on_send.push(Box::new(move |wp, _r| {
            let mut out = Vec::new();
            if wp.ttl != first_ttl {
                return out;
            }
            for k in 0..n_noise {
                let mut icmp = vec![if tc_v6 { 128u8 } else { 8 }, 0, 0, 0, 0x12, 0x34, 0, k as u8, 1, 2, 3, 4];
                if !tc_v6 {
                    let c = crate::wire::csum(&[&icmp]);
                    icmp[2..4].copy_from_slice(&c.to_be_bytes());
                }
                let (bytes, src): (Vec<u8>, std::net::IpAddr) = if tc_v6 {
                    (icmp, "fd00:99::1".parse().unwrap())
                } else {
                    let s = std::net::Ipv4Addr::new(10, 99, 0, 1);
                    (crate::wire::wrap_ip4(s, host4, crate::wire::PROTO_ICMP, 60, 0, 0x4444, &[], &icmp), s.into())
                };
                let _ = host6;
                out.push(crate::forge::injected(k * rt * 500_000 + 300_000, tc_v6, bytes, src, crate::world::PktClass::Noise));
            }
            out
        }));
    };
    let Some((world, run)) = run_guarded(&wcfg, &tcfg, false, install, &mut o, &site, &replay, &format!("scenario {i}")) else {
        return o;
    };
    let w = world.inner.lock().unwrap();
    if let Err(e) = &run.result {
        o.violate("run_completes", format!("{site}|{}", e.split(':').next().unwrap_or("")), format!("run failed: {e}"), replay.clone());
    }
    let a = analyse(&w, 0, &run);
    check_timing(&w, &a, &run, &tcfg, &mut o, &site, &replay, loop_start(&w, 0));
    o.count("rounds", run.rounds.len() as u64);
    if noisy {
        o.count("scenarios_with_unrelated_traffic", 1);
    }
    o.observe("timing_settings", format!("min{min}|max{max}|grace{grace}|rt{rt}"));
    if !run.rounds.is_empty() {
        o.nontrivial = Some(format!("{protocol}|min{min}|max{max}|grace{grace}|rt{rt}|{:?}", dt.map(|d| d / 1_000_000)));
    }
    if i < 2 {
        o.sample = Some(json!({"scenario": i, "cell": site, "min_ms": min, "max_ms": max, "grace_ms": grace, "read_timeout_ms": rt,
            "rounds": run.rounds.iter().map(|r| json!({"round": r.index, "t_publish_ns": r.t_publish - crate::clock::EPOCH_NS, "reason": format!("{:?}", r.reason)})).collect::<Vec<_>>()}));
    }
    o
}

/// The same policy on a clock of finite resolution: reads do not move the clock, time passes only
/// while the tracer waits on a socket, all delays are whole milliseconds.  The instants the code
/// samples are then exactly the instants the harness sees, so "more than" can be told from "at
/// least": a round published exactly min / grace / max after its reference instant is a violation.
pub fn run_coarse(seed: u64, i: usize, tier: Tier) -> Outcome {
    use trippy_core::{CompletionReason, ProbeStatus};
    let mut o = Outcome::default();
    let mut r = Prng::new(seed ^ (i as u64).wrapping_mul(0x9E37_79B9_7F4A_7C15) ^ 0xC0A25E);
    let protocol = *r.pick(&[Protocol::Icmp, Protocol::Icmp, Protocol::Udp, Protocol::Tcp]);
    let v6 = r.chance(1, 4);
    let cell = Cell {
        protocol,
        v6,
        strategy: MultipathStrategy::Classic,
        ports: match protocol {
            Protocol::Icmp => 0,
            Protocol::Udp => 1,
            Protocol::Tcp => 2,
        },
        unprivileged: false,
        ext: false,
    };
    let mut tcfg = cell.trace_cfg();
    let min = *r.pick(&[0u64, 10, 50]);
    let max = *r.pick(&[min, min + 10, min + 40, 300]);
    let grace = *r.pick(&[0u64, 1, 10, 20]);
    let rt = *r.pick(&[1u64, 10]);
    tcfg.min_round = ms(min);
    tcfg.max_round = ms(max);
    tcfg.grace = ms(grace);
    tcfg.read_timeout = ms(rt);
    tcfg.tcp_connect_timeout = ms(max.max(50));
    tcfg.max_rounds = Some(tier.pick(6, 10));
    tcfg.max_ttl = 6;
    let dist = r.range(1, 4) as usize;
    let mut hop = |addr: std::net::IpAddr, r: &mut Prng| {
        let d = r.range(0, 70);
        let mut s = HopSpec::simple(addr, d.max(1) * 1_000_000);
        s.quote = Quote::Full;
        if d == 0 {
            s.behaviour = Behaviour::Silent;
        }
        s
    };
    let hops: Vec<HopSpec> = (0..dist - 1).map(|h| hop(scen::hop_addr(v6, h, 0), &mut r)).collect();
    let t = hop(tcfg.target, &mut r);
    let topo = Topology { hops, target: t, tcp: *r.pick(&[TcpMode::SynAck, TcpMode::Rst]) };
    let wcfg = world_cfg(topo, seed ^ i as u64);
    let site = format!("{}|coarse-clock", cell.name());
    let mut replay = replay_of("C08", seed, i, &tcfg, &wcfg.topo);
    replay["how"] = json!(format!("vcheck C08 --seed {seed} --only coarse:{i}"));
    let install = |world: &std::sync::Arc<crate::world::World>| world.clock.set_step(0);
    let Some((world, run)) = run_guarded(&wcfg, &tcfg, false, install, &mut o, &site, &replay, &format!("coarse scenario {i}")) else {
        return o;
    };
    let w = world.inner.lock().unwrap();
    if let Err(e) = &run.result {
        o.violate("run_completes", format!("{site}|{}", e.split(':').next().unwrap_or("")), format!("run failed: {e}"), replay.clone());
    }
    let (min_ns, max_ns, grace_ns, rt_ns) = (min * 1_000_000, max * 1_000_000, grace * 1_000_000, rt * 1_000_000);
    let mut start = loop_start(&w, 0);
    for round in &run.rounds {
        let dur = round.t_publish - start;
        let last = round
            .probes
            .iter()
            .filter_map(|p| match p {
                ProbeStatus::Complete(c) => Some(crate::sim::st_ns(c.received)),
                _ => None,
            })
            .max();
        let found = round.reason == CompletionReason::TargetFound;
        let since = last.map(|l| round.t_publish.saturating_sub(l));
        let by_max = dur > max_ns;
        let by_target = found && dur > min_ns && since.is_some_and(|s| s > grace_ns);
        o.hit("published_only_when_policy_allows");
        o.observe("coarse_clock_cases", format!("target={} dur-min={:?} since-grace={:?} dur-max={:?}", u8::from(found), dur.cmp(&min_ns), since.map(|s| s.cmp(&grace_ns)), dur.cmp(&max_ns)));
        if !(by_max || by_target) {
            o.violate(
                "published_only_when_policy_allows",
                site.clone(),
                format!("round {}: published exactly {dur}ns after it started and {since:?}ns after its last response (target answered = {found}); min {min_ns} max {max_ns} grace {grace_ns}: the durations must be exceeded, not reached", round.index),
                replay.clone(),
            );
        }
        if round.reason == CompletionReason::RoundTimeLimitExceeded && !by_max {
            o.hit("reason_tells_which");
            o.violate("reason_tells_which", format!("{site}|time-limit-before-max"), format!("round {}: time limit reason after {dur}ns <= max {max_ns}", round.index), replay.clone());
        }
        o.hit("never_held_longer_than_max_plus_read_timeout");
        if dur > max_ns + rt_ns {
            o.violate("never_held_longer_than_max_plus_read_timeout", site.clone(), format!("round {}: open for {dur}ns > max {max_ns} + read timeout {rt_ns}", round.index), replay.clone());
        }
        start = round.t_publish;
    }
    o.count("coarse_clock_rounds", run.rounds.len() as u64);
    if !run.rounds.is_empty() {
        o.nontrivial = Some(format!("coarse|{protocol}|min{min}|max{max}|grace{grace}|rt{rt}"));
    }
    o
}

const TIMING_CLAUSES: [&str; 5] = ["published_only_when_policy_allows", "published_as_soon_as_policy_allows", "reason_tells_which", "never_held_longer_than_max_plus_read_timeout", "next_round_starts_at_publish"];

pub fn run(tier: Tier, seed: u64, only: Option<String>) -> i32 {
    let mut rep = Report::new("C08", "exploration", tier, seed);
    rep.rule = "coarse-clock scenarios (a clock of finite resolution: reads do not move it, all delays whole ms; min in {0,10,50}, max in {min,min+10,min+40,300}, grace in {0,1,10,20}, read timeout in {1,10} ms) decide 'exceeds' against 'reaches' exactly; stale-slot worlds (the C03 workload) are judged by the timing clauses; main scenario = (min in {0,50,1000}ms, max in {min, min+1, min+40, 5000}ms, grace in {0,10,100,1000}ms, read timeout in {1,10,100}ms) x duplicated responses (one scenario in four) x unrelated inbound traffic (an ignored ICMP echo request every half read timeout, one scenario in five) x response placement of each hop and of the target at {never, ~0, 0.2 min, 0.9 min, between min and max, inside the grace window before max, after max}; the 16 combinations of (target answered, duration > min, grace elapsed, duration > max) observed at publish time are listed under distinct_observed.timing_cases; non-trivial = at least one round published; distinct by (protocol, timing setting, target placement)".into();
    rep.assumptions = vec![
        "durations are evaluated at the publish callback instant, which is >= the instant the code sampled (durations are monotone, so this can only err towards silence); 10us of slack covers 1ns clock ticks".into(),
        "select() has millisecond granularity, as in trippy's real socket implementation".into(),
    ];
    rep.required_clauses = vec!["published_only_when_policy_allows", "reason_tells_which", "never_held_longer_than_max_plus_read_timeout", "next_round_starts_at_publish"];
    let n = tier.pick(50_000, 1_500_000);
    match only {
        Some(s) => {
            let o = if let Some(k) = s.strip_prefix("coarse:") {
                run_coarse(seed, k.parse().unwrap_or(0), tier)
            } else if let Some(k) = s.strip_prefix("stale:") {
                crate::props::c03::run_stale(seed ^ 0xC08, k.parse().unwrap_or(0), &crate::scen::all_cells(false), tier).retain_clauses(&TIMING_CLAUSES, "stale-slot")
            } else {
                run_scenario(seed, s.parse().unwrap_or(0), tier)
            };
            for v in &o.violations {
                println!("{}: {}", v.signature(), v.detail);
            }
            rep.merge(o);
        }
        None => {
            // stale-slot worlds (the C03 workload) judged by the timing clauses: a packet that
            // answers no probe of this round must not end it, nor restart its grace period
            let cells = crate::scen::all_cells(false);
            let n_stale = tier.pick(96, 960);
            let n_coarse = tier.pick(4_000, 100_000);
            rep.run_parallel(n + n_stale + n_coarse, |i| {
                if i < n {
                    run_scenario(seed, i, tier)
                } else if i < n + n_stale {
                    crate::props::c03::run_stale(seed ^ 0xC08, i - n, &cells, tier).retain_clauses(&TIMING_CLAUSES, "stale-slot")
                } else {
                    run_coarse(seed, i - n - n_stale, tier)
                }
            })
        }
    }
    rep.finish()
}
