//! C12 - packet field accessors are exact, independent and RFC-positioned.
use crate::framework::{guarded, Outcome, Report, Tier};
use crate::prng::Prng;
use serde_json::json;
use std::net::{Ipv4Addr, Ipv6Addr};
use trippy_packet::icmp_extension::extension_header::ExtensionHeaderPacket;
use trippy_packet::icmp_extension::extension_object::{ClassNum, ClassSubType, ExtensionObjectPacket};
use trippy_packet::icmp_extension::extension_structure::ExtensionsPacket;
use trippy_packet::icmp_extension::mpls_label_stack::MplsLabelStackPacket;
use trippy_packet::icmp_extension::mpls_label_stack_member::MplsLabelStackMemberPacket;
use trippy_packet::ipv4::Ipv4Packet;
use trippy_packet::ipv6::Ipv6Packet;
use trippy_packet::tcp::TcpPacket;
use trippy_packet::udp::UdpPacket;
use trippy_packet::{icmpv4, icmpv6, IpProtocol};

/// One header field: where the governing RFC puts it and how trippy reads / writes it.
pub struct Field {
    pub ty: &'static str,
    pub name: &'static str,
    /// Bit offset from the start of the header (network bit order) and width in bits.
    pub bit: usize,
    pub width: usize,
    /// Width of the setter's parameter in bits (the domain of values that can be written).
    pub param_bits: usize,
    pub min_len: usize,
    pub rfc: &'static str,
    pub set: fn(&mut [u8], u128),
    pub get: fn(&[u8]) -> u128,
}

macro_rules! field {
    ($ty:ty, $tyname:expr, $name:expr, $bit:expr, $width:expr, $pbits:expr, $min:expr, $rfc:expr, |$p:ident, $v:ident| $set:expr, |$q:ident| $get:expr) => {
        Field {
            ty: $tyname,
            name: $name,
            bit: $bit,
            width: $width,
            param_bits: $pbits,
            min_len: $min,
            rfc: $rfc,
            set: |buf: &mut [u8], $v: u128| {
                let mut $p = <$ty>::new(buf).expect("buffer of minimum size");
                $set;
            },
            get: |buf: &[u8]| {
                let $q = <$ty>::new_view(buf).expect("buffer of minimum size");
                ($get) as u128
            },
        }
    };
}

pub fn fields() -> Vec<Field> {
    let mut f = Vec::new();
    // ---- IPv4, RFC 791 section 3.1
    f.push(field!(Ipv4Packet<'_>, "Ipv4Packet", "version", 0, 4, 8, 20, "RFC 791", |p, v| p.set_version(v as u8), |q| q.get_version()));
    f.push(field!(Ipv4Packet<'_>, "Ipv4Packet", "header_length", 4, 4, 8, 20, "RFC 791", |p, v| p.set_header_length(v as u8), |q| q.get_header_length()));
    f.push(field!(Ipv4Packet<'_>, "Ipv4Packet", "dscp", 8, 6, 8, 20, "RFC 2474", |p, v| p.set_dscp(v as u8), |q| q.get_dscp()));
    f.push(field!(Ipv4Packet<'_>, "Ipv4Packet", "ecn", 14, 2, 8, 20, "RFC 3168", |p, v| p.set_ecn(v as u8), |q| q.get_ecn()));
    f.push(field!(Ipv4Packet<'_>, "Ipv4Packet", "tos", 8, 8, 8, 20, "RFC 791", |p, v| p.set_tos(v as u8), |q| q.get_tos()));
    f.push(field!(Ipv4Packet<'_>, "Ipv4Packet", "total_length", 16, 16, 16, 20, "RFC 791", |p, v| p.set_total_length(v as u16), |q| q.get_total_length()));
    f.push(field!(Ipv4Packet<'_>, "Ipv4Packet", "identification", 32, 16, 16, 20, "RFC 791", |p, v| p.set_identification(v as u16), |q| q.get_identification()));
    f.push(field!(Ipv4Packet<'_>, "Ipv4Packet", "flags_and_fragment_offset", 48, 16, 16, 20, "RFC 791", |p, v| p.set_flags_and_fragment_offset(v as u16), |q| q.get_flags_and_fragment_offset()));
    f.push(field!(Ipv4Packet<'_>, "Ipv4Packet", "ttl", 64, 8, 8, 20, "RFC 791", |p, v| p.set_ttl(v as u8), |q| q.get_ttl()));
    f.push(field!(Ipv4Packet<'_>, "Ipv4Packet", "protocol", 72, 8, 8, 20, "RFC 791", |p, v| p.set_protocol(IpProtocol::from(v as u8)), |q| q.get_protocol().id()));
    f.push(field!(Ipv4Packet<'_>, "Ipv4Packet", "checksum", 80, 16, 16, 20, "RFC 791", |p, v| p.set_checksum(v as u16), |q| q.get_checksum()));
    f.push(field!(Ipv4Packet<'_>, "Ipv4Packet", "source", 96, 32, 32, 20, "RFC 791", |p, v| p.set_source(Ipv4Addr::from(v as u32)), |q| u32::from(q.get_source())));
    f.push(field!(Ipv4Packet<'_>, "Ipv4Packet", "destination", 128, 32, 32, 20, "RFC 791", |p, v| p.set_destination(Ipv4Addr::from(v as u32)), |q| u32::from(q.get_destination())));
    // ---- IPv6, RFC 8200 section 3
    f.push(field!(Ipv6Packet<'_>, "Ipv6Packet", "version", 0, 4, 8, 40, "RFC 8200", |p, v| p.set_version(v as u8), |q| q.get_version()));
    f.push(field!(Ipv6Packet<'_>, "Ipv6Packet", "traffic_class", 4, 8, 8, 40, "RFC 8200", |p, v| p.set_traffic_class(v as u8), |q| q.get_traffic_class()));
    f.push(field!(Ipv6Packet<'_>, "Ipv6Packet", "flow_label", 12, 20, 32, 40, "RFC 8200", |p, v| p.set_flow_label(v as u32), |q| q.get_flow_label()));
    f.push(field!(Ipv6Packet<'_>, "Ipv6Packet", "payload_length", 32, 16, 16, 40, "RFC 8200", |p, v| p.set_payload_length(v as u16), |q| q.get_payload_length()));
    f.push(field!(Ipv6Packet<'_>, "Ipv6Packet", "next_header", 48, 8, 8, 40, "RFC 8200", |p, v| p.set_next_header(IpProtocol::from(v as u8)), |q| q.get_next_header().id()));
    f.push(field!(Ipv6Packet<'_>, "Ipv6Packet", "hop_limit", 56, 8, 8, 40, "RFC 8200", |p, v| p.set_hop_limit(v as u8), |q| q.get_hop_limit()));
    f.push(field!(Ipv6Packet<'_>, "Ipv6Packet", "source_address", 64, 128, 128, 40, "RFC 8200", |p, v| p.set_source_address(Ipv6Addr::from(v)), |q| u128::from(q.get_source_address())));
    f.push(field!(Ipv6Packet<'_>, "Ipv6Packet", "destination_address", 192, 128, 128, 40, "RFC 8200", |p, v| p.set_destination_address(Ipv6Addr::from(v)), |q| u128::from(q.get_destination_address())));
    // ---- UDP, RFC 768
    f.push(field!(UdpPacket<'_>, "UdpPacket", "source", 0, 16, 16, 8, "RFC 768", |p, v| p.set_source(v as u16), |q| q.get_source()));
    f.push(field!(UdpPacket<'_>, "UdpPacket", "destination", 16, 16, 16, 8, "RFC 768", |p, v| p.set_destination(v as u16), |q| q.get_destination()));
    f.push(field!(UdpPacket<'_>, "UdpPacket", "length", 32, 16, 16, 8, "RFC 768", |p, v| p.set_length(v as u16), |q| q.get_length()));
    f.push(field!(UdpPacket<'_>, "UdpPacket", "checksum", 48, 16, 16, 8, "RFC 768", |p, v| p.set_checksum(v as u16), |q| q.get_checksum()));
    // ---- TCP, RFC 793 section 3.1 (+ RFC 3540 NS bit: 9 flag bits)
    f.push(field!(TcpPacket<'_>, "TcpPacket", "source", 0, 16, 16, 20, "RFC 793", |p, v| p.set_source(v as u16), |q| q.get_source()));
    f.push(field!(TcpPacket<'_>, "TcpPacket", "destination", 16, 16, 16, 20, "RFC 793", |p, v| p.set_destination(v as u16), |q| q.get_destination()));
    f.push(field!(TcpPacket<'_>, "TcpPacket", "sequence", 32, 32, 32, 20, "RFC 793", |p, v| p.set_sequence(v as u32), |q| q.get_sequence()));
    f.push(field!(TcpPacket<'_>, "TcpPacket", "acknowledgement", 64, 32, 32, 20, "RFC 793", |p, v| p.set_acknowledgement(v as u32), |q| q.get_acknowledgement()));
    f.push(field!(TcpPacket<'_>, "TcpPacket", "data_offset", 96, 4, 8, 20, "RFC 793", |p, v| p.set_data_offset(v as u8), |q| q.get_data_offset()));
    f.push(field!(TcpPacket<'_>, "TcpPacket", "reserved", 100, 3, 8, 20, "RFC 3540", |p, v| p.set_reserved(v as u8), |q| q.get_reserved()));
    f.push(field!(TcpPacket<'_>, "TcpPacket", "flags", 103, 9, 16, 20, "RFC 3540", |p, v| p.set_flags(v as u16), |q| q.get_flags()));
    f.push(field!(TcpPacket<'_>, "TcpPacket", "window_size", 112, 16, 16, 20, "RFC 793", |p, v| p.set_window_size(v as u16), |q| q.get_window_size()));
    f.push(field!(TcpPacket<'_>, "TcpPacket", "checksum", 128, 16, 16, 20, "RFC 793", |p, v| p.set_checksum(v as u16), |q| q.get_checksum()));
    f.push(field!(TcpPacket<'_>, "TcpPacket", "urgent_pointer", 144, 16, 16, 20, "RFC 793", |p, v| p.set_urgent_pointer(v as u16), |q| q.get_urgent_pointer()));
    // ---- ICMPv4, RFC 792 (+ RFC 4884 length, RFC 1191 next-hop MTU)
    macro_rules! icmp_common {
        ($ty:ty, $name:expr, $t:ty, $c:ty, $rfc:expr) => {
            f.push(field!($ty, $name, "icmp_type", 0, 8, 8, 8, $rfc, |p, v| p.set_icmp_type(<$t>::from(v as u8)), |q| q.get_icmp_type().id()));
            f.push(field!($ty, $name, "icmp_code", 8, 8, 8, 8, $rfc, |p, v| p.set_icmp_code(<$c>::from(v as u8)), |q| q.get_icmp_code().0));
            f.push(field!($ty, $name, "checksum", 16, 16, 16, 8, $rfc, |p, v| p.set_checksum(v as u16), |q| q.get_checksum()));
        };
    }
    icmp_common!(icmpv4::IcmpPacket<'_>, "icmpv4::IcmpPacket", icmpv4::IcmpType, icmpv4::IcmpCode, "RFC 792");
    icmp_common!(icmpv4::echo_request::EchoRequestPacket<'_>, "icmpv4::EchoRequestPacket", icmpv4::IcmpType, icmpv4::IcmpCode, "RFC 792");
    icmp_common!(icmpv4::echo_reply::EchoReplyPacket<'_>, "icmpv4::EchoReplyPacket", icmpv4::IcmpType, icmpv4::IcmpCode, "RFC 792");
    icmp_common!(icmpv4::time_exceeded::TimeExceededPacket<'_>, "icmpv4::TimeExceededPacket", icmpv4::IcmpType, icmpv4::IcmpCode, "RFC 792");
    icmp_common!(icmpv4::destination_unreachable::DestinationUnreachablePacket<'_>, "icmpv4::DestinationUnreachablePacket", icmpv4::IcmpType, icmpv4::IcmpCode, "RFC 792");
    f.push(field!(icmpv4::echo_request::EchoRequestPacket<'_>, "icmpv4::EchoRequestPacket", "identifier", 32, 16, 16, 8, "RFC 792", |p, v| p.set_identifier(v as u16), |q| q.get_identifier()));
    f.push(field!(icmpv4::echo_request::EchoRequestPacket<'_>, "icmpv4::EchoRequestPacket", "sequence", 48, 16, 16, 8, "RFC 792", |p, v| p.set_sequence(v as u16), |q| q.get_sequence()));
    f.push(field!(icmpv4::echo_reply::EchoReplyPacket<'_>, "icmpv4::EchoReplyPacket", "identifier", 32, 16, 16, 8, "RFC 792", |p, v| p.set_identifier(v as u16), |q| q.get_identifier()));
    f.push(field!(icmpv4::echo_reply::EchoReplyPacket<'_>, "icmpv4::EchoReplyPacket", "sequence", 48, 16, 16, 8, "RFC 792", |p, v| p.set_sequence(v as u16), |q| q.get_sequence()));
    f.push(field!(icmpv4::time_exceeded::TimeExceededPacket<'_>, "icmpv4::TimeExceededPacket", "length", 40, 8, 8, 8, "RFC 4884 4.1", |p, v| p.set_length(v as u8), |q| q.get_length()));
    f.push(field!(icmpv4::destination_unreachable::DestinationUnreachablePacket<'_>, "icmpv4::DestinationUnreachablePacket", "length", 40, 8, 8, 8, "RFC 4884 4.2", |p, v| p.set_length(v as u8), |q| q.get_length()));
    f.push(field!(icmpv4::destination_unreachable::DestinationUnreachablePacket<'_>, "icmpv4::DestinationUnreachablePacket", "next_hop_mtu", 48, 16, 16, 8, "RFC 1191", |p, v| p.set_next_hop_mtu(v as u16), |q| q.get_next_hop_mtu()));
    // ---- ICMPv6, RFC 4443 (+ RFC 4884 length)
    icmp_common!(icmpv6::IcmpPacket<'_>, "icmpv6::IcmpPacket", icmpv6::IcmpType, icmpv6::IcmpCode, "RFC 4443");
    icmp_common!(icmpv6::echo_request::EchoRequestPacket<'_>, "icmpv6::EchoRequestPacket", icmpv6::IcmpType, icmpv6::IcmpCode, "RFC 4443");
    icmp_common!(icmpv6::echo_reply::EchoReplyPacket<'_>, "icmpv6::EchoReplyPacket", icmpv6::IcmpType, icmpv6::IcmpCode, "RFC 4443");
    icmp_common!(icmpv6::time_exceeded::TimeExceededPacket<'_>, "icmpv6::TimeExceededPacket", icmpv6::IcmpType, icmpv6::IcmpCode, "RFC 4443");
    icmp_common!(icmpv6::destination_unreachable::DestinationUnreachablePacket<'_>, "icmpv6::DestinationUnreachablePacket", icmpv6::IcmpType, icmpv6::IcmpCode, "RFC 4443");
    f.push(field!(icmpv6::echo_request::EchoRequestPacket<'_>, "icmpv6::EchoRequestPacket", "identifier", 32, 16, 16, 8, "RFC 4443", |p, v| p.set_identifier(v as u16), |q| q.get_identifier()));
    f.push(field!(icmpv6::echo_request::EchoRequestPacket<'_>, "icmpv6::EchoRequestPacket", "sequence", 48, 16, 16, 8, "RFC 4443", |p, v| p.set_sequence(v as u16), |q| q.get_sequence()));
    f.push(field!(icmpv6::echo_reply::EchoReplyPacket<'_>, "icmpv6::EchoReplyPacket", "identifier", 32, 16, 16, 8, "RFC 4443", |p, v| p.set_identifier(v as u16), |q| q.get_identifier()));
    f.push(field!(icmpv6::echo_reply::EchoReplyPacket<'_>, "icmpv6::EchoReplyPacket", "sequence", 48, 16, 16, 8, "RFC 4443", |p, v| p.set_sequence(v as u16), |q| q.get_sequence()));
    f.push(field!(icmpv6::time_exceeded::TimeExceededPacket<'_>, "icmpv6::TimeExceededPacket", "length", 32, 8, 8, 8, "RFC 4884 4.4", |p, v| p.set_length(v as u8), |q| q.get_length()));
    f.push(field!(icmpv6::destination_unreachable::DestinationUnreachablePacket<'_>, "icmpv6::DestinationUnreachablePacket", "length", 32, 8, 8, 8, "RFC 4884 4.3", |p, v| p.set_length(v as u8), |q| q.get_length()));
    // (no RFC positions a next-hop MTU in the ICMPv6 destination unreachable message - RFC 4443
    // 3.1 leaves octets 4..8 unused and RFC 4884 takes the first of them; the view mirrors the
    // RFC 1191 layout of its IPv4 twin: the last two of the four octets, network byte order)
    f.push(field!(icmpv6::destination_unreachable::DestinationUnreachablePacket<'_>, "icmpv6::DestinationUnreachablePacket", "next_hop_mtu", 48, 16, 16, 8, "RFC 1191 layout (IPv4 twin)", |p, v| p.set_next_hop_mtu(v as u16), |q| q.get_next_hop_mtu()));
    // ---- ICMP extension structure, RFC 4884 section 7
    f.push(field!(ExtensionHeaderPacket<'_>, "ExtensionHeaderPacket", "version", 0, 4, 8, 4, "RFC 4884 7", |p, v| p.set_version(v as u8), |q| q.get_version()));
    f.push(field!(ExtensionHeaderPacket<'_>, "ExtensionHeaderPacket", "checksum", 16, 16, 16, 4, "RFC 4884 7", |p, v| p.set_checksum(v as u16), |q| q.get_checksum()));
    f.push(field!(ExtensionObjectPacket<'_>, "ExtensionObjectPacket", "length", 0, 16, 16, 4, "RFC 4884 7.1", |p, v| p.set_length(v as u16), |q| q.get_length()));
    f.push(field!(ExtensionObjectPacket<'_>, "ExtensionObjectPacket", "class_num", 16, 8, 8, 4, "RFC 4884 7.1", |p, v| p.set_class_num(ClassNum::from(v as u8)), |q| q.get_class_num().id()));
    f.push(field!(ExtensionObjectPacket<'_>, "ExtensionObjectPacket", "class_subtype", 24, 8, 8, 4, "RFC 4884 7.1", |p, v| p.set_class_subtype(ClassSubType(v as u8)), |q| q.get_class_subtype().0));
    // ---- MPLS label stack entry, RFC 3032 / RFC 4950
    f.push(field!(MplsLabelStackMemberPacket<'_>, "MplsLabelStackMemberPacket", "label", 0, 20, 32, 4, "RFC 3032", |p, v| p.set_label(v as u32), |q| q.get_label()));
    f.push(field!(MplsLabelStackMemberPacket<'_>, "MplsLabelStackMemberPacket", "exp", 20, 3, 8, 4, "RFC 3032", |p, v| p.set_exp(v as u8), |q| q.get_exp()));
    f.push(field!(MplsLabelStackMemberPacket<'_>, "MplsLabelStackMemberPacket", "bos", 23, 1, 8, 4, "RFC 3032", |p, v| p.set_bos(v as u8), |q| q.get_bos()));
    f.push(field!(MplsLabelStackMemberPacket<'_>, "MplsLabelStackMemberPacket", "ttl", 24, 8, 8, 4, "RFC 3032", |p, v| p.set_ttl(v as u8), |q| q.get_ttl()));
    f
}

/// Generic big-endian bit-field writer: the oracle.
pub fn write_bits(buf: &mut [u8], bit: usize, width: usize, value: u128) {
    for i in 0..width {
        let b = (value >> (width - 1 - i)) & 1;
        let pos = bit + i;
        let mask = 0x80u8 >> (pos % 8);
        if b == 1 {
            buf[pos / 8] |= mask;
        } else {
            buf[pos / 8] &= !mask;
        }
    }
}

fn mask(width: usize) -> u128 {
    if width >= 128 {
        u128::MAX
    } else {
        (1u128 << width) - 1
    }
}

fn field_job(seed: u64, idx: usize, tier: Tier) -> Outcome {
    let mut o = Outcome::default();
    let fs = fields();
    let f = &fs[idx];
    let mut r = Prng::new(seed ^ (idx as u64).wrapping_mul(0x9E37_79B9_7F4A_7C15) ^ 0xC12);
    let site = format!("{}::{}", f.ty, f.name);
    let len = f.min_len + 8;
    let fills = tier.pick(4, 10);
    let mut backgrounds: Vec<Vec<u8>> = vec![vec![0u8; len], vec![0xffu8; len]];
    for _ in 0..fills {
        backgrounds.push(r.bytes(len));
    }
    // values: the whole domain of the setter's parameter up to 16 bits, else boundaries + random
    let values: Vec<u128> = if f.param_bits <= 16 {
        (0..(1u128 << f.param_bits)).collect()
    } else {
        let m = mask(f.param_bits);
        let mut v: Vec<u128> = vec![0, 1, m, m - 1, m >> 1, (m >> 1) + 1, mask(f.width), mask(f.width).wrapping_add(1) & m, 0xaaaa_aaaa_aaaa_aaaa_aaaa_aaaa_aaaa_aaaa & m, 0x5555_5555_5555_5555_5555_5555_5555_5555 & m];
        for i in 0..f.param_bits {
            v.push(1u128 << i);
        }
        for _ in 0..tier.pick(2_000, 10_000) {
            v.push((u128::from(r.next_u64()) << 64 | u128::from(r.next_u64())) & m);
        }
        v
    };
    let mut evals = 0u64;
    'outer: for bg in &backgrounds {
        for &v in &values {
            let mut buf = bg.clone();
            let set = f.set;
            if let Err(p) = guarded(|| set(&mut buf, v)) {
                o.violate("setter_getter_never_panic", format!("{site}|{}", p.site()), format!("set({v:#x}): panic at {}:{}: {}", p.file, p.line, p.message), json!({"field": site, "value": v.to_string()}));
                break 'outer;
            }
            let mut want = bg.clone();
            let tv = v & mask(f.width);
            write_bits(&mut want, f.bit, f.width, tv);
            evals += 1;
            if buf != want {
                let first = buf.iter().zip(&want).position(|(a, b)| a != b).unwrap_or(0);
                o.violate(
                    "write_places_truncated_value_at_rfc_position",
                    site.clone(),
                    format!("set({v:#x}) over background {}: byte {first} is {:#04x}, expected {:#04x} ({} bit {} width {})", crate::wire::hex(&bg[..bg.len().min(12)]), buf[first], want[first], f.rfc, f.bit, f.width),
                    json!({"how": format!("vcheck C12 --seed {seed} --only {idx}"), "scenario": idx, "field": site, "value": v.to_string(), "background_hex": crate::wire::hex(bg)}),
                );
                break 'outer;
            }
            let before = buf.clone();
            let get = f.get;
            match guarded(|| get(&buf)) {
                Ok(g) => {
                    if g != tv {
                        o.violate("read_returns_truncated_value", site.clone(), format!("get() = {g:#x} after set({v:#x}), expected {tv:#x}"), json!({"field": site, "value": v.to_string()}));
                        break 'outer;
                    }
                }
                Err(p) => {
                    o.violate("setter_getter_never_panic", format!("{site}|get|{}", p.site()), format!("get(): panic at {}:{}: {}", p.file, p.line, p.message), json!({"field": site}));
                    break 'outer;
                }
            }
            if buf != before {
                o.violate("views_do_not_modify", site.clone(), "getter modified the buffer".to_string(), json!({"field": site}));
                break 'outer;
            }
        }
    }
    o.hit_n("write_places_truncated_value_at_rfc_position", evals);
    o.hit_n("read_returns_truncated_value", evals);
    o.count("field_writes_checked", evals);
    o.observe("fields", site.clone());
    o.nontrivial = Some(site.clone());
    if idx % 17 == 0 {
        o.sample = Some(json!({"field": site, "rfc": f.rfc, "bit_offset": f.bit, "width": f.width, "setter_param_bits": f.param_bits, "values": values.len(), "backgrounds": backgrounds.len()}));
    }
    o
}

macro_rules! ctor {
    ($o:expr, $ty:ty, $name:expr, $min:expr) => {{
        for len in 0..=64usize {
            let mut a = vec![0x5au8; len];
            let b = a.clone();
            let ok_view = <$ty>::new_view(&b).is_ok();
            let ok_new = <$ty>::new(&mut a).is_ok();
            $o.hit("construction_iff_minimum_size");
            if ok_view != (len >= $min) || ok_new != (len >= $min) {
                $o.violate("construction_iff_minimum_size", $name, format!("{}: len {len}: new {ok_new} new_view {ok_view}, minimum {}", $name, $min), json!({"type": $name, "len": len}));
            }
            if <$ty>::minimum_packet_size() != $min {
                $o.violate("construction_iff_minimum_size", format!("{}|minimum", $name), format!("minimum_packet_size() = {}", <$ty>::minimum_packet_size()), json!({"type": $name}));
            }
            // a view over a read-only buffer leaves it unchanged whatever is read
            if let Ok(v) = <$ty>::new_view(&b) {
                let c = b.clone();
                let _ = guarded(|| format!("{:?}", v.packet().len()));
                if b != c {
                    $o.violate("views_do_not_modify", $name, "buffer changed".to_string(), json!({"type": $name}));
                }
            }
        }
    }};
}

fn constructors() -> Outcome {
    let mut o = Outcome::default();
    ctor!(o, Ipv4Packet<'_>, "Ipv4Packet", 20);
    ctor!(o, Ipv6Packet<'_>, "Ipv6Packet", 40);
    ctor!(o, UdpPacket<'_>, "UdpPacket", 8);
    ctor!(o, TcpPacket<'_>, "TcpPacket", 20);
    ctor!(o, icmpv4::IcmpPacket<'_>, "icmpv4::IcmpPacket", 8);
    ctor!(o, icmpv4::echo_request::EchoRequestPacket<'_>, "icmpv4::EchoRequestPacket", 8);
    ctor!(o, icmpv4::echo_reply::EchoReplyPacket<'_>, "icmpv4::EchoReplyPacket", 8);
    ctor!(o, icmpv4::time_exceeded::TimeExceededPacket<'_>, "icmpv4::TimeExceededPacket", 8);
    ctor!(o, icmpv4::destination_unreachable::DestinationUnreachablePacket<'_>, "icmpv4::DestinationUnreachablePacket", 8);
    ctor!(o, icmpv6::IcmpPacket<'_>, "icmpv6::IcmpPacket", 8);
    ctor!(o, icmpv6::echo_request::EchoRequestPacket<'_>, "icmpv6::EchoRequestPacket", 8);
    ctor!(o, icmpv6::echo_reply::EchoReplyPacket<'_>, "icmpv6::EchoReplyPacket", 8);
    ctor!(o, icmpv6::time_exceeded::TimeExceededPacket<'_>, "icmpv6::TimeExceededPacket", 8);
    ctor!(o, icmpv6::destination_unreachable::DestinationUnreachablePacket<'_>, "icmpv6::DestinationUnreachablePacket", 8);
    ctor!(o, ExtensionsPacket<'_>, "ExtensionsPacket", 4);
    ctor!(o, ExtensionHeaderPacket<'_>, "ExtensionHeaderPacket", 4);
    ctor!(o, ExtensionObjectPacket<'_>, "ExtensionObjectPacket", 4);
    ctor!(o, MplsLabelStackPacket<'_>, "MplsLabelStackPacket", 4);
    ctor!(o, MplsLabelStackMemberPacket<'_>, "MplsLabelStackMemberPacket", 4);
    o.nontrivial = Some("constructors".into());
    o
}

pub fn run(tier: Tier, seed: u64, only: Option<usize>) -> i32 {
    let mut rep = Report::new("C12", "exploration", tier, seed);
    rep.rule = "one case = one header field of one packet type, from a table written from the RFC diagrams (type, field, bit offset, bit width, RFC): for 4 (thorough 10) background fills (zeros, ones, random) and EVERY value of the setter's parameter type up to 16 bits (boundary, single-bit and 2 000..10 000 random values for wider fields), the buffer after the setter must equal the background with the truncated value written by a generic big-endian bit-field writer at the RFC position - byte for byte, so that every bit outside the field is checked - and the getter must return the truncated value without modifying the buffer; plus construction (new / new_view) for every type at every length 0..=64 against its minimum size; distinct by field".into();
    rep.assumptions = vec!["the ICMPv6 destination unreachable view's next_hop_mtu accessor has no RFC-defined position: it is judged against the layout of its IPv4 twin (RFC 1191: octets 6..8 of the message, network byte order), which is where the unchanged code puts it; every public setter of every packet type is in the table".into()];
    rep.required_clauses = vec!["write_places_truncated_value_at_rfc_position", "read_returns_truncated_value", "construction_iff_minimum_size"];
    let n = fields().len();
    rep.exhaustive = Some(true);
    rep.extras.insert("exhaustive_scope".into(), json!("all values of every field whose setter parameter has at most 16 bits; wider fields are sampled"));
    rep.extras.insert("fields_in_table".into(), json!(n));
    match only {
        Some(i) => {
            let o = field_job(seed, i, tier);
            for v in o.violations.iter().take(10) {
                println!("{}: {}", v.signature(), v.detail);
            }
            rep.merge(o);
        }
        None => rep.run_parallel(n + 1, |i| if i < n { field_job(seed, i, tier) } else { constructors() }),
    }
    rep.finish()
}
