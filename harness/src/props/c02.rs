//! C02 - a probe's identity survives the wire: encode, quote, decode, match.
use crate::e2e::{check_outcomes, replay_of, run_guarded, E2eOpts};
use crate::forge;
use crate::framework::{Outcome, Report, Tier};
use crate::prng::Prng;
use crate::scen::{self, all_cells, ms, random_ext, world_cfg, Cell};
use crate::truth::analyse;
use crate::wire::Rfc4884;
use crate::world::{Adversary, Forgery, HopSpec, Quote, TcpMode, Topology};
use serde_json::json;
use trippy_core::{MultipathStrategy, ProbeStatus, Protocol};

/// Plan of (initial sequence, rounds) runs that together issue every sequence value the state
/// machine can reach without re-issues.
fn plan(cell: &Cell, tier: Tier, k: usize) -> (u16, usize, u8) {
    // (initial sequence, rounds, hops per round)
    let dublin6 = cell.protocol == Protocol::Udp && cell.strategy == MultipathStrategy::Dublin && cell.v6;
    match tier {
        Tier::Quick => {
            let init = [0u16, 33434, 64_257, 64_511][k % 4];
            (init, if dublin6 { 8 } else { 24 }, 254)
        }
        Tier::Thorough => {
            if dublin6 {
                // the sequence restarts once initial + 512 is reached: 0..=765 offsets
                ([0u16, 33434, 64_511, 1000][k % 4], 12, 254)
            } else if k % 2 == 0 {
                // 0, 254, 508, ... : every residue class start, until the wrap at 65023
                (0, 260, 254)
            } else {
                (64_260, 8, 254)
            }
        }
    }
}

pub fn run_scenario(seed: u64, i: usize, cells: &[Cell], tier: Tier) -> Outcome {
    let mut o = Outcome::default();
    let cell = cells[i % cells.len()];
    let k = i / cells.len();
    let mut r = Prng::new(seed ^ (i as u64).wrapping_mul(0x9E37_79B9_7F4A_7C15) ^ 0xC02);
    let mut tcfg = cell.trace_cfg();
    let (init, rounds, hops_n) = plan(&cell, tier, k);
    tcfg.initial_sequence = init;
    tcfg.max_rounds = Some(rounds);
    tcfg.first_ttl = 1;
    tcfg.max_ttl = hops_n;
    tcfg.max_inflight = 255;
    tcfg.read_timeout = ms(1);
    tcfg.min_round = ms(700);
    tcfg.max_round = ms(700);
    tcfg.grace = ms(5);
    tcfg.tcp_connect_timeout = ms(300);
    let min_size: u16 = if cell.v6 { 48 } else { 28 };
    tcfg.packet_size = *r.pick(&[min_size, min_size + 2, 84, 200, 512, 1024]).max(&min_size);
    tcfg.tos = if cell.v6 { 0 } else { *r.pick(&[0u8, 0xb8, 0xff]) };
    tcfg.payload_pattern = *r.pick(&[0u8, 0x20, 0xff]);
    // lossless, in-order world: every miss is a codec miss.  Quotation shape varies per hop.
    // hops_n - 1 routers and the target at ttl hops_n = max-ttl (so that the target is probed too)
    let dist = usize::from(hops_n);
    let hops: Vec<HopSpec> = (0..dist - 1)
        .map(|h| {
            let mut s = HopSpec::simple(scen::hop_addr(cell.v6, h % 200, h / 200), 100_000 + h as u64 * 1_000);
            s.quote = if cell.v6 {
                Quote::Full
            } else {
                match r.below(5) {
                    0 => Quote::Min8,
                    1 => Quote::Plus(28),
                    2 => Quote::Plus(r.range(8, 128) as usize),
                    _ => Quote::Full,
                }
            };
            // TCP needs more than 8 octets only for the ports: min is fine
            s.q_ttl = r.below(2) as u8;
            s.q_fix_csum = r.chance(1, 2);
            s.tos_rewrite = if r.chance(1, 4) { Some(r.below(256) as u8) } else { None };
            s.outer_opts = !cell.v6 && r.chance(1, 4);
            let (m, e) = match r.below(5) {
                0 => (Rfc4884::Compliant, random_ext(&mut r)),
                1 => (Rfc4884::Legacy, random_ext(&mut r)),
                2 => (Rfc4884::LengthOnly, Vec::new()),
                _ => (Rfc4884::None, Vec::new()),
            };
            s.rfc4884 = m;
            s.ext = e;
            // some routers answer with destination unreachable (net / host / prohibited)
            if r.chance(1, 10) {
                s.router_unreach = Some(*r.pick(&[0u8, 1, 13, 3]));
            }
            s
        })
        .collect();
    let mut t = HopSpec::simple(tcfg.target, 500_000);
    t.quote = Quote::Full;
    // the target's own error message (UDP: port unreachable) comes in every RFC 4884 shape too
    let (m, e) = match r.below(4) {
        0 => (Rfc4884::Compliant, random_ext(&mut r)),
        1 => (Rfc4884::Legacy, random_ext(&mut r)),
        2 => (Rfc4884::LengthOnly, Vec::new()),
        _ => (Rfc4884::None, Vec::new()),
    };
    t.rfc4884 = m;
    t.ext = e;
    // TCP: in some worlds the target's handshake answer arrives just as the earlier probes'
    // connection attempts time out (the pending-socket list is purged and searched in one call)
    if cell.protocol == Protocol::Tcp && r.chance(1, 3) {
        let to = r.range(5, 30);
        tcfg.tcp_connect_timeout = ms(to);
        t.delay_ns = ((to - 3) * 1_000_000, (to + 1) * 1_000_000);
        // a small window paces the sends by the responses, which spreads the time-outs
        tcfg.max_inflight = r.range(2, 6) as u8;
    }
    let topo = Topology { hops, target: t, tcp: *r.pick(&[TcpMode::SynAck, TcpMode::Rst]) };
    let mut wcfg = world_cfg(topo, seed ^ i as u64);
    // TCP: local port collisions make the tracer re-issue probes under the next sequence; the
    // re-issued probe must still be the one its response is matched to
    if cell.protocol == Protocol::Tcp && r.chance(1, 2) {
        wcfg.faults.bind_in_use_pct = r.range(3, 25) as u8;
    }
    // negative half: near-miss forgeries arrive just before the genuine response
    wcfg.adversary = Adversary {
        forgeries: vec![(Forgery::OtherDest, 6), (Forgery::OtherProto, 6), (Forgery::OtherTracer, 6), (Forgery::OtherIcmpType, 3), (Forgery::OtherTeCode, 3)],
        offset_ns: (-50_000, -1_000),
        // late copies: one response in 25 is delivered again one to two rounds later
        late_pct: 4,
        // (half of the worlds: just as the next round begins, before that round's own responses)
        late_delay_ns: if r.chance(1, 2) { (700_000_000, 701_200_000) } else { (700_000_000, 1_400_000_000) },
    };
    let site = cell.name();
    let replay = replay_of("C02", seed, i, &tcfg, &wcfg.topo);
    let tc2 = tcfg.clone();
    let install = |world: &std::sync::Arc<crate::world::World>| {
        // an echo reply naming the sequence of a UDP / TCP probe: another protocol's datagram
        crate::forge::install_echo_adversary(world, &tc2, 16);
        let (host4, host6) = {
            let w = world.inner.lock().unwrap();
            (w.cfg.host_v4, w.cfg.host_v6)
        };
        let v6 = tc2.target.is_ipv6();
        let tc = tc2.clone();
        let router = scen::hop_addr(v6, 0, 0);
        world.inner.lock().unwrap().inject_on_send.push(Box::new(move |wp, r| {
            let mut out = Vec::new();
            if !r.chance(1, 16) {
                return out;
            }
            let mut transit = wp.bytes.clone();
            let hl = if v6 { 40 } else { 20 };
            // another fixed port (another tracer), or the Dublin marker removed
            if tc.protocol != Protocol::Icmp {
                let off = match tc.ports {
                    trippy_core::PortDirection::FixedSrc(_) => hl,
                    // both ports identify the tracer: alter one of them
                    trippy_core::PortDirection::FixedBoth(_, _) => hl + 2 * r.below(2) as usize,
                    _ => hl + 2,
                };
                if tc.protocol == Protocol::Udp && tc.strategy == MultipathStrategy::Dublin && v6 && r.chance(1, 2) && transit.len() >= 54 {
                    for b in &mut transit[48..54] {
                        *b = 0x41;
                    }
                    let q = forge::truncate_quote(&transit, v6);
                    let (bytes, src) = forge::icmp_error(v6, router, host4, host6, false, &q, 0);
                    out.push(forge::injected(50_000, v6, bytes, src, crate::world::PktClass::Forged(Forgery::NoMagic)));
                } else if transit.len() >= off + 2 {
                    let p = u16::from_be_bytes([transit[off], transit[off + 1]]) ^ 0x0180;
                    transit[off..off + 2].copy_from_slice(&p.to_be_bytes());
                    let q = forge::truncate_quote(&transit, v6);
                    let (bytes, src) = forge::icmp_error(v6, router, host4, host6, false, &q, 0);
                    out.push(forge::injected(50_000, v6, bytes, src, crate::world::PktClass::Forged(Forgery::OtherTracer)));
                }
            }
            out
        }));
    };
    let Some((world, run)) = run_guarded(&wcfg, &tcfg, false, install, &mut o, &site, &replay, &format!("scenario {i}")) else {
        return o;
    };
    let w = world.inner.lock().unwrap();
    if let Err(e) = &run.result {
        o.violate("run_completes", format!("{site}|{}", e.split(':').next().unwrap_or("")), format!("run failed: {e}"), replay.clone());
    }
    let a = analyse(&w, 0, &run);
    check_outcomes(&w, &a, &run, &tcfg, &mut o, &site, &replay, &E2eOpts { check_ext: true });
    // which sequence values were issued and recognised?
    let mut recognised = 0u64;
    let mut issued = 0u64;
    for round in &run.rounds {
        for p in &round.probes {
            match p {
                ProbeStatus::Complete(c) => {
                    issued += 1;
                    recognised += 1;
                    o.observe(&format!("seq:{site}"), c.sequence.0.to_string());
                }
                ProbeStatus::Awaited(a) => {
                    issued += 1;
                    let _ = a;
                }
                _ => {}
            }
        }
    }
    o.count("probes_issued", issued);
    o.count("probes_recognised", recognised);
    let forged_read = a.rounds.iter().flat_map(|r| &r.reads).filter(|x| matches!(x.class, crate::world::PktClass::Forged(_))).count();
    o.count("near_miss_forgeries_read", forged_read as u64);
    o.observe("cells", site.clone());
    if recognised > 0 {
        o.nontrivial = Some(format!("{site}|init{init}|size{}", tcfg.packet_size));
    }
    if i < 2 {
        o.sample = Some(json!({"scenario": i, "cell": site, "initial_sequence": init, "rounds": rounds, "issued": issued, "recognised": recognised,
            "quotation_shapes": w.cfg.topo.hops.iter().take(6).map(|h| format!("{:?}/{:?}/ttl{}/csum{}/tos{:?}/opts{}", h.quote, h.rfc4884, h.q_ttl, h.q_fix_csum, h.tos_rewrite, h.outer_opts)).collect::<Vec<_>>()}));
    }
    o
}

/// An ICMP probe carries nothing but (identifier, sequence), every tracer of a process starts at
/// the same sequence and sees every ICMP packet of the host: the identifiers the application
/// assigns to its tracers (`trip a b c ...`) are what keeps a tracer from accepting the quotation
/// of a sibling's probe.  Exhaustive over the process id for up to 8 tracers: pairwise distinct,
/// and never 0 (the value every tracer accepts).
fn identifiers_job(seed: u64) -> Outcome {
    let mut o = Outcome::default();
    for pid in 0..=u16::MAX {
        let ids: Vec<u16> = (0..8).map(|i| trippy_tui::verif::trace_identifier(pid, i)).collect();
        o.hit("sibling_tracers_get_distinct_nonzero_identifiers");
        let mut sorted = ids.clone();
        sorted.sort_unstable();
        sorted.dedup();
        if sorted.len() != ids.len() || ids.contains(&0) {
            let kind = if ids.contains(&0) { "zero" } else { "collision" };
            o.violate(
                "sibling_tracers_get_distinct_nonzero_identifiers",
                kind,
                format!("process id {pid}: the tracers with index 0..8 get the identifiers {ids:?}"),
                json!({"how": format!("vcheck C02 --seed {seed}"), "pid": pid, "identifiers": ids}),
            );
            if o.violations.len() >= 8 {
                break;
            }
        }
    }
    o
}

pub fn run(tier: Tier, seed: u64, only: Option<usize>) -> i32 {
    let mut rep = Report::new("C02", "exploration", tier, seed);
    rep.rule = "scenario = cell x initial sequence x lossless in-order path of 253 routers + the target at ttl 254 = max-ttl (max-inflight 255, so every round issues 254 consecutive sequences; half of the TCP scenarios with 3..25% local port collisions, i.e. re-issued probes); per hop the quotation shape is drawn: IPv4 header+8 / +28 / +n / full (IPv6 always as much as fits), RFC 4884 none / length-only / compliant / legacy with MPLS and unknown objects, routers answering with destination unreachable (net / host / prohibited) instead of time exceeded, the target's port unreachable in every RFC 4884 shape, quoted TTL 0/1, quoted header checksum recomputed or stale, TOS rewritten, IPv4 options in the outer header; 4% of the genuine responses are delivered again one to two rounds later; 6% of genuine responses are preceded by a near-miss forgery (other destination, other protocol, other identifier / fixed port, Dublin marker altered, other ICMP type/code) which must complete nothing; every probe whose genuine response was read must be Complete with the right responder; the identifiers the application assigns to sibling tracers are checked exhaustively over the process id (8 tracers: pairwise distinct, never 0); thorough walks initial sequences so that every issuable value is issued (per-cell counts under distinct_observed seq:<cell>)".into();
    rep.assumptions = vec![
        "IPv6 routers quote as much of the datagram as fits in 1280 octets (RFC 4443 2.4c); IPv4 error messages with RFC 4884 structure are capped at 576 octets (RFC 1812)".into(),
        "a forgery differs from the genuine quotation in one identity component and arrives 1..50us before it".into(),
    ];
    rep.required_clauses = vec!["complete_iff_genuine_response", "extensions_reported"];
    let cells = all_cells(false);
    let per = tier.pick(4, 8);
    let n = cells.len() * per;
    match only {
        Some(i) => {
            let o = run_scenario(seed, i, &cells, tier);
            for v in o.violations.iter().take(20) {
                println!("{}: {}", v.signature(), v.detail);
            }
            rep.merge(o);
        }
        None => {
            rep.run_parallel(n, |i| run_scenario(seed, i, &cells, tier));
            rep.merge(identifiers_job(seed));
        }
    }
    // exhaustiveness of the sequence walk (thorough): every cell must have seen every issuable value
    let mut per_cell = serde_json::Map::new();
    let mut min_cov = usize::MAX;
    for (k, v) in &rep.sets {
        if let Some(cell) = k.strip_prefix("seq:") {
            per_cell.insert(cell.to_string(), json!(v.len()));
            min_cov = min_cov.min(v.len());
        }
    }
    rep.extras.insert("distinct_sequences_recognised_per_cell".into(), serde_json::Value::Object(per_cell));
    if tier == Tier::Thorough {
        // general regime: 0..=65275 (65276 values); Dublin/IPv6: initial..initial+765 for 4 initial sequences
        rep.exhaustive = Some(min_cov >= 766);
        rep.extras.insert("exhaustive_note".into(), json!("general cells: all values 0..=65275 a re-issue free round can reach; Dublin/IPv6 cells: offsets 0..=765 from 4 initial sequences; see per-cell counts"));
    }
    // do not dump 65k strings per cell into the evidence examples
    let keys: Vec<String> = rep.sets.keys().filter(|k| k.starts_with("seq:")).cloned().collect();
    for k in keys {
        rep.sets.remove(&k);
    }
    rep.finish()
}
