//! C20 - snapshots are round-atomic while the tracer runs.
use crate::clock;
use crate::framework::{Outcome, Report, Tier};
use crate::prng::Prng;
use crate::scen::{self, all_cells, ms, world_cfg};
use crate::world::{Behaviour, HopSpec, Quote, TcpMode, Topology, World};
use serde_json::json;
use std::collections::hash_map::DefaultHasher;
use std::collections::BTreeMap;
use std::hash::{Hash, Hasher};
use std::sync::atomic::{AtomicBool, AtomicU64, Ordering};
use std::sync::{Arc, Mutex};
use trippy_core::verif::StateConfig;
use trippy_core::{CompletionReason, FlowId, MultipathStrategy, ProbeStatus, Protocol, Round, State, TimeToLive};

static STAMP: AtomicU64 = AtomicU64::new(1);
static FAILPOINT_MODE: AtomicU64 = AtomicU64::new(0);
static FAILPOINT_HITS: AtomicU64 = AtomicU64::new(0);

fn stamp() -> u64 {
    STAMP.fetch_add(1, Ordering::SeqCst)
}

/// Failpoint callback: stretch the windows between / around the critical sections.
fn failpoint(name: &'static str) {
    FAILPOINT_HITS.fetch_add(1, Ordering::Relaxed);
    let mode = FAILPOINT_MODE.load(Ordering::Relaxed);
    if mode == 0 {
        return;
    }
    // cheap deterministic pseudo randomness from the stamp counter
    let x = STAMP.load(Ordering::Relaxed).wrapping_mul(0x9E37_79B9_7F4A_7C15) >> 40;
    let between = name == "state.update_from_round.between_flows";
    match (mode, x % 8) {
        (_, 0) if between => std::thread::sleep(std::time::Duration::from_micros(200)),
        (_, 1) | (_, 2) => std::thread::yield_now(),
        (2, 3) => std::thread::sleep(std::time::Duration::from_micros(50)),
        _ => {}
    }
}

/// Everything observable about a state, hashed (floats by bit pattern).
pub fn digest(s: &State) -> u64 {
    let mut h = DefaultHasher::new();
    let flows: Vec<FlowId> = std::iter::once(FlowId(0)).chain(s.flows().iter().map(|(_, id)| *id)).collect();
    s.flows().len().hash(&mut h);
    for (f, id) in s.flows() {
        id.0.hash(&mut h);
        format!("{f}").hash(&mut h);
    }
    s.round_flow_id().0.hash(&mut h);
    s.error().hash(&mut h);
    for f in flows {
        f.0.hash(&mut h);
        s.round_count(f).hash(&mut h);
        s.round(f).hash(&mut h);
        s.target_hop(f).ttl().hash(&mut h);
        for hop in s.hops_for_flow(f) {
            hop.ttl().hash(&mut h);
            hop.total_sent().hash(&mut h);
            hop.total_recv().hash(&mut h);
            hop.total_failed().hash(&mut h);
            hop.total_forward_loss().hash(&mut h);
            hop.total_backward_loss().hash(&mut h);
            for x in [hop.loss_pct(), hop.avg_ms(), hop.stddev_ms(), hop.javg_ms(), hop.jinta(), hop.last_ms().unwrap_or(-1.0), hop.best_ms().unwrap_or(-1.0), hop.worst_ms().unwrap_or(-1.0), hop.jitter_ms().unwrap_or(-1.0), hop.jmax_ms().unwrap_or(-1.0)] {
                x.to_bits().hash(&mut h);
            }
            for (a, c) in hop.addrs_with_counts() {
                a.hash(&mut h);
                c.hash(&mut h);
            }
            hop.last_src_port().hash(&mut h);
            hop.last_dest_port().hash(&mut h);
            hop.last_sequence().hash(&mut h);
            format!("{:?}{:?}{:?}{:?}", hop.last_icmp_packet_type(), hop.last_nat_status(), hop.tos(), hop.extensions()).hash(&mut h);
            hop.samples().hash(&mut h);
            s.is_target(hop, f).hash(&mut h);
            s.is_in_round(hop, f).hash(&mut h);
        }
    }
    h.finish()
}

#[derive(Clone)]
struct Rnd {
    probes: Vec<ProbeStatus>,
    largest: u8,
    reason: CompletionReason,
    /// stamp taken in the publish callback (after the state update returned)
    c: u64,
}

struct Snap {
    s0: u64,
    s1: u64,
    n: usize,
    b: Option<usize>,
    digest: u64,
}

/// One stress run; returns the outcome of checking every recorded snapshot.
fn stress(seed: u64, j: usize, readers: usize, millis: u64, mode: u64) -> Outcome {
    let mut o = Outcome::default();
    let mut r = Prng::new(seed ^ (j as u64).wrapping_mul(0x9E37_79B9_7F4A_7C15) ^ 0xC20);
    let cells: Vec<_> = all_cells(false).into_iter().filter(|c| !c.ext && !c.unprivileged).collect();
    let cell = *r.pick(&cells);
    let mut tcfg = cell.trace_cfg();
    tcfg.min_round = ms(10);
    tcfg.max_round = ms(10);
    tcfg.grace = ms(1);
    tcfg.read_timeout = ms(1);
    tcfg.tcp_connect_timeout = ms(10);
    tcfg.max_rounds = None;
    tcfg.max_ttl = 10;
    tcfg.max_samples = 8;
    // (clear-storm runs keep the flow registry at its limit, so that every round meets the limit)
    tcfg.max_flows = if cell.strategy == MultipathStrategy::Classic || j % 2 == 1 { 1 } else { 8 };
    let dist = r.range(2, 7) as usize;
    let hops: Vec<HopSpec> = (0..dist - 1)
        .map(|h| {
            let mut s = HopSpec::simple(scen::hop_addr(cell.v6, h, 0), r.range(100_000, 2_000_000));
            s.addrs = (0..r.range(1, 3) as usize).map(|b| scen::hop_addr(cell.v6, h, b)).collect();
            s.quote = Quote::Full;
            if r.chance(1, 6) {
                s.behaviour = Behaviour::Silent;
            }
            s
        })
        .collect();
    let mut t = HopSpec::simple(tcfg.target, 800_000);
    t.quote = Quote::Full;
    let mut hops = hops;
    // the shape of the history: a stable answering path | lossy hops and target, so that the
    // path length of the rounds varies and some rounds get no response at all | a network that
    // is silent at first | a long silent path probed up to ttl 254
    let shape = (j / 2) % 4;
    match shape {
        1 => {
            for h in &mut hops {
                h.loss_pct = 45;
            }
            t.loss_pct = 60;
        }
        3 => {
            for h in &mut hops {
                h.behaviour = Behaviour::Silent;
            }
            t.behaviour = Behaviour::Silent;
            tcfg.max_ttl = 254;
            tcfg.max_inflight = 255;
            // (one probe goes out per loop iteration, i.e. per read timeout on a silent network)
            tcfg.min_round = ms(300);
            tcfg.max_round = ms(300);
        }
        _ => {}
    }
    let topo = Topology { hops, target: t, tcp: if shape == 3 { TcpMode::Silent } else { TcpMode::Rst } };
    let mut wcfg = world_cfg(topo, seed ^ j as u64);
    if shape == 2 {
        // nothing answers during the first 30 rounds (10 ms rounds in virtual time)
        wcfg.blackouts.push((0, 300_000_000));
    }
    let world = World::new(wcfg);
    let site = format!("{}/readers{readers}", cell.name());
    let replay = json!({"how": format!("vcheck C20 --seed {seed} --only {j}"), "scenario": j, "cell": cell.name(), "readers": readers, "failpoint_mode": mode});
    let tracer = match tcfg.builder().build() {
        Ok(t) => t,
        Err(e) => {
            o.harness_error = Some(format!("build: {e}"));
            return o;
        }
    };
    FAILPOINT_MODE.store(mode, Ordering::Relaxed);
    trippy_core::verif::set_failpoint(Some(failpoint));
    let rounds: Arc<Mutex<Vec<Rnd>>> = Arc::new(Mutex::new(Vec::new()));
    let stop = Arc::new(AtomicBool::new(false));
    let done = Arc::new(AtomicBool::new(false));
    let run_result: Arc<Mutex<Option<Result<(), String>>>> = Arc::new(Mutex::new(None));
    let snaps: Arc<Mutex<Vec<Snap>>> = Arc::new(Mutex::new(Vec::new()));
    let clears: Arc<Mutex<Vec<(u64, u64)>>> = Arc::new(Mutex::new(Vec::new()));
    let t_start = clock::real_now_ns();
    let panics: Arc<Mutex<Vec<crate::framework::Panic>>> = Arc::new(Mutex::new(Vec::new()));
    std::thread::scope(|sc| {
        // the tracer: virtual time, runs until the world is told to stop (a fatal fault)
        let (w2, tr2, rounds2, stop2, done2, result2) = (world.clone(), tracer.clone(), rounds.clone(), stop.clone(), done.clone(), run_result.clone());
        let tracer_panics = panics.clone();
        sc.spawn(move || {
            let guard = w2.attach(0);
            let res = crate::framework::guarded(|| tr2.run_with(|round| {
                let c = stamp();
                rounds2.lock().unwrap().push(Rnd { probes: round.probes.to_vec(), largest: round.largest_ttl.0, reason: round.reason, c });
                if stop2.load(Ordering::Relaxed) {
                    // end the trace: make the next socket call fail
                    let mut w = w2.inner.lock().unwrap();
                    let next = w.calls();
                    for k in 0..64 {
                        w.cfg.faults.at_call.insert(next + k, crate::world::Fault { errno: libc::EBADF });
                    }
                }
            }));
            match res {
                Ok(res) => *result2.lock().unwrap() = Some(res.map_err(|e| e.to_string())),
                // the tracer thread itself panicked (while applying a round, for instance)
                Err(p) => tracer_panics.lock().unwrap().push(p),
            }
            done2.store(true, Ordering::SeqCst);
            drop(guard);
        });
        for _ in 0..readers {
            let (tr, snaps2, stop2, panics2) = (tracer.clone(), snaps.clone(), done.clone(), panics.clone());
            sc.spawn(move || {
                let mut local = Vec::new();
                // (readers keep going until the tracer has ended, so that they also contend with
                // the hand-over of the final error)
                while !stop2.load(Ordering::Relaxed) {
                    let s0 = stamp();
                    // (a snapshot torn by a race may make clone or the getters panic)
                    let got = crate::framework::guarded(|| {
                        let s = tr.snapshot();
                        let s1 = stamp();
                        // an error recorded by the terminating fault is not part of any round: skip
                        if s.error().is_some() {
                            return None;
                        }
                        Some(Snap { s0, s1, n: s.round_count(State::default_flow_id()), b: s.round(State::default_flow_id()), digest: digest(&s) })
                    });
                    match got {
                        Ok(Some(snap)) => local.push(snap),
                        Ok(None) => continue,
                        Err(p) => {
                            panics2.lock().unwrap().push(p);
                            break;
                        }
                    }
                    if local.len() % 64 == 0 {
                        std::thread::yield_now();
                    }
                }
                snaps2.lock().unwrap().extend(local);
            });
        }
        // the clearer
        let (tr, clears2, stop2) = (tracer.clone(), clears.clone(), stop.clone());
        let cseed = r.next_u64();
        let storm = j % 2 == 1;
        sc.spawn(move || {
            let mut r = Prng::new(cseed);
            while !stop2.load(Ordering::Relaxed) {
                // (every third run clears in rapid succession: many clears land next to a round)
                if storm {
                    let us = r.range(0, 120);
                    if us < 20 {
                        std::thread::yield_now();
                    } else {
                        std::thread::sleep(std::time::Duration::from_micros(us));
                    }
                } else {
                    std::thread::sleep(std::time::Duration::from_micros(r.range(200, 20_000)));
                }
                if stop2.load(Ordering::Relaxed) {
                    break;
                }
                let k0 = stamp();
                tr.clear();
                let k1 = stamp();
                clears2.lock().unwrap().push((k0, k1));
            }
        });
        std::thread::sleep(std::time::Duration::from_millis(millis));
        stop.store(true, Ordering::Relaxed);
    });
    trippy_core::verif::set_failpoint(None);
    // the run was ended by a fatal socket error: whatever the readers were doing at that moment,
    // the error must be visible in every later snapshot
    // (a clear() that returned after the last round was published may have wiped the error
    // legitimately: such a run is not judged)
    let last_pub = rounds.lock().unwrap().last().map_or(0, |r| r.c);
    let cleared_late = clears.lock().unwrap().iter().any(|(_, k1)| *k1 > last_pub);
    if let (Some(Err(e)), false) = (run_result.lock().unwrap().clone(), cleared_late) {
        o.hit("fatal_error_visible_after_concurrent_run");
        if tracer.snapshot().error().is_none() {
            o.violate("fatal_error_visible_after_concurrent_run", site.clone(), format!("the run ended with {e:?} while {readers} reader thread(s) were taking snapshots, but a snapshot taken afterwards carries no error"), replay.clone());
        }
    }
    for p in panics.lock().unwrap().iter() {
        o.violate("snapshot_is_whole_consecutive_rounds", format!("{site}|panic|{}", p.site()), format!("taking or reading a snapshot panicked at {}:{}: {}", p.file, p.line, p.message), replay.clone());
    }
    let wall = clock::real_now_ns() - t_start;
    let rounds = rounds.lock().unwrap().clone();
    let snaps = std::mem::take(&mut *snaps.lock().unwrap());
    let clears = clears.lock().unwrap().clone();
    // ---- offline check: every snapshot against the sequential model
    // reference digests, memoised per (first round, last round)
    let cfg = StateConfig { max_samples: tcfg.max_samples, max_flows: if cell.strategy == MultipathStrategy::Classic { 1 } else { tcfg.max_flows } };
    let empty = digest(&State::new(cfg));
    let mut by_start: BTreeMap<usize, Vec<usize>> = BTreeMap::new();
    for (i, s) in snaps.iter().enumerate() {
        if let (n, Some(b)) = (s.n, s.b) {
            if n > 0 && b + 1 >= n {
                by_start.entry(b + 1 - n).or_default().push(i);
            }
        }
    }
    let mut expected: BTreeMap<(usize, usize), u64> = BTreeMap::new();
    for (start, idxs) in &by_start {
        let mut ends: Vec<usize> = idxs.iter().map(|i| snaps[*i].b.unwrap()).collect();
        ends.sort_unstable();
        ends.dedup();
        let mut st = State::new(cfg);
        let mut k = *start;
        for e in ends {
            if e >= rounds.len() {
                break;
            }
            while k <= e {
                let rd = &rounds[k];
                st.update_from_round(&Round::new(&rd.probes, TimeToLive(rd.largest), rd.reason));
                k += 1;
            }
            expected.insert((*start, e), digest(&st));
        }
    }
    let c_of = |k: usize| rounds.get(k).map(|r| r.c);
    let (mut overlapped, mut after_clear, mut nonempty) = (0u64, 0u64, 0u64);
    let mut pairs = std::collections::BTreeSet::new();
    for s in &snaps {
        o.hit("snapshot_is_whole_consecutive_rounds");
        let (n, b) = (s.n, s.b);
        if n == 0 {
            if s.digest != empty {
                o.violate("snapshot_is_whole_consecutive_rounds", format!("{site}|empty"), "a snapshot reporting zero rounds is not the empty state".to_string(), replay.clone());
            }
            // real time: some round must not have been fully applied, or a clear intervened
            continue;
        }
        nonempty += 1;
        let Some(b) = b else {
            o.violate("snapshot_is_whole_consecutive_rounds", format!("{site}|no-round-id"), format!("snapshot with {n} rounds but no latest round id"), replay.clone());
            continue;
        };
        if b + 1 < n {
            o.violate("snapshot_is_whole_consecutive_rounds", format!("{site}|count"), format!("snapshot reports {n} rounds, latest round id {b}"), replay.clone());
            continue;
        }
        let start = b + 1 - n;
        pairs.insert((n.min(50), start > 0));
        if b >= rounds.len() {
            // the round's callback had not run yet when the run was stopped: cannot be judged
            continue;
        }
        match expected.get(&(start, b)) {
            Some(d) if *d == s.digest => {}
            Some(_) => {
                o.violate(
                    "snapshot_is_whole_consecutive_rounds",
                    site.clone(),
                    format!("snapshot (rounds {start}..={b}, stamps {}..{}) differs from applying those {n} rounds to an empty state", s.s0, s.s1),
                    replay.clone(),
                );
                continue;
            }
            None => continue,
        }
        // ---- real-time order (stamps bracket the operations conservatively)
        o.hit("snapshot_respects_real_time_order");
        // round b+1 must not have been completely applied before the snapshot was called
        if let Some(cn) = c_of(b + 1) {
            if cn < s.s0 {
                // ... unless a clear could explain a state that restarted: it cannot, the snapshot holds b
                o.violate("snapshot_respects_real_time_order", format!("{site}|stale"), format!("snapshot called at {} holds rounds up to {b} although round {} was published at {cn}", s.s0, b + 1), replay.clone());
            }
        }
        // round b must have started before the snapshot returned
        if b > 0 {
            if let Some(cp) = c_of(b - 1) {
                if cp > s.s1 {
                    o.violate("snapshot_respects_real_time_order", format!("{site}|future"), format!("snapshot returned at {} holds round {b} whose predecessor was published at {cp}", s.s1), replay.clone());
                }
            }
        }
        if let Some(cb) = c_of(b) {
            if cb > s.s0 {
                overlapped += 1;
            }
        }
        if start > 0 {
            after_clear += 1;
            // rounds before `start` are missing: a clear must overlap or lie between the
            // application of rounds start-1 and start
            let lo = if start >= 2 { c_of(start - 2).unwrap_or(0) } else { 0 };
            let hi = c_of(start).unwrap_or(u64::MAX);
            if !clears.iter().any(|(k0, k1)| *k1 > lo && *k0 < hi) {
                o.violate("snapshot_respects_real_time_order", format!("{site}|forgot"), format!("snapshot holds rounds {start}..={b} only, but no clear() ran between the application of rounds {} and {start}", start - 1), replay.clone());
            }
        }
        // no clear lies entirely between the application of round `start` and the snapshot call
        let cs = c_of(start).unwrap_or(u64::MAX);
        if clears.iter().any(|(k0, k1)| *k0 > cs && *k1 < s.s0) {
            o.violate("snapshot_respects_real_time_order", format!("{site}|resurrected"), format!("snapshot called at {} still holds round {start} (published at {cs}) although a clear() ran completely in between", s.s0), replay.clone());
        }
    }
    o.count("snapshots_checked", snaps.len() as u64);
    o.count("snapshots_non_empty", nonempty);
    o.count("rounds_published", rounds.len() as u64);
    o.observe("largest_round_sizes", format!("{}", rounds.iter().map(|r| r.probes.len()).max().unwrap_or(0)));
    o.count("clears", clears.len() as u64);
    o.count("snapshots_overlapping_a_round_application", overlapped);
    o.count("snapshots_after_a_clear", after_clear);
    o.count("failpoint_hits", FAILPOINT_HITS.swap(0, Ordering::Relaxed));
    o.count("distinct_n_start_pairs", pairs.len() as u64);
    o.observe("reader_counts", readers.to_string());
    o.observe("history_shapes", ["stable", "lossy", "silent-at-first", "silent-254-hops"][shape]);
    o.observe("cells", cell.name());
    if overlapped > 0 && after_clear > 0 {
        o.nontrivial = Some(format!("{site}|{mode}|{j}"));
    }
    if j < 2 {
        o.sample = Some(json!({"run": j, "cell": cell.name(), "readers": readers, "wall_ms": wall / 1_000_000, "rounds": rounds.len(), "snapshots": snaps.len(), "clears": clears.len(),
            "first_snapshots": snaps.iter().take(5).map(|s| json!({"call": s.s0, "return": s.s1, "rounds": s.n, "latest": s.b})).collect::<Vec<_>>()}));
    }
    let _ = Protocol::Icmp;
    o
}

pub fn run(tier: Tier, seed: u64, only: Option<usize>) -> i32 {
    let mut rep = Report::new("C20", "exploration", tier, seed);
    rep.rule = "run = one real tracer (real RwLock<State>, real Strategy over the simulated world in virtual time, 10 ms rounds, Paris/Dublin cells register flows; history shapes: stable answering path, lossy hops and target, silent for the first 30 rounds, silent path probed up to ttl 254) on its own OS thread + R in {1,4,12} reader threads calling Tracer::snapshot() in a loop + one thread calling Tracer::clear() every 0.2..20 ms (every other run: every 0..120 us, with max-flows 1), for 0.7 s (thorough 8 s) of wall time per run; every operation is stamped from one atomic counter before the call and after the return, the publish callback stamps and copies every round; failpoints between the default-flow and per-flow update and around the lock scopes yield / sleep at random; offline, every snapshot reporting n rounds with latest id b must hash (all getters of all flows, floats by bit pattern) to the state obtained by applying rounds b-n+1..=b to an empty State with the real single-threaded code, and the stamps must allow that linearisation (not stale, not from the future, missing prefix explained by a clear, no clear entirely between); runs execute one at a time (they use all cores themselves); non-trivial = at least one snapshot overlapped the application of a round and at least one followed a clear".into();
    rep.assumptions = vec![
        "application intervals of rounds are bracketed by the publish callback stamps of rounds k-1 and k (conservative: can only make the checker more permissive)".into(),
        "interleavings come from the OS scheduler on 16 cores plus the failpoint delays; coverage is reported as counts of snapshots that overlapped a round application / followed a clear".into(),
    ];
    rep.required_clauses = vec!["snapshot_is_whole_consecutive_rounds", "snapshot_respects_real_time_order"];
    let runs = tier.pick(8, 24);
    let millis = tier.pick(700, 8_000);
    let plan = |j: usize| ([1usize, 4, 12][j % 3], [1u64, 2, 0][(j / 3) % 3]);
    let millis = if tier == Tier::Quick { 900 } else { millis };
    match only {
        Some(j) => {
            let (rd, mode) = plan(j);
            rep.merge(stress(seed, j, rd, millis, mode));
        }
        None => {
            for j in 0..runs {
                let (rd, mode) = plan(j);
                rep.merge(stress(seed, j, rd, millis, mode));
            }
        }
    }
    rep.finish()
}
