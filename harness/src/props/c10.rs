//! C10 - the hop table covers exactly the probed path and ends at the target.
use crate::e2e::{replay_of, run_guarded};
use crate::framework::{guarded, Outcome, Report, Tier};
use crate::oracles::check_bookkeeping;
use crate::prng::Prng;
use crate::scen::{self, all_cells, ms, random_topology, world_cfg, TopoOpts};
use crate::truth::analyse;
use crate::world::{Behaviour, HopSpec, Quote, TcpMode, Topology};
use serde_json::{json, Value};
use std::net::{IpAddr, Ipv4Addr};
use std::time::{Duration, SystemTime};
use trippy_core::verif::{probe_new, StateConfig};
use trippy_core::{CompletionReason, Flags, FlowId, IcmpPacketType, Port, ProbeStatus, Round, RoundId, Sequence, State, TimeToLive, TraceId};

/// Check the window invariants of one state against what is known about the rounds so far.
pub fn check_window(state: &State, probed: &std::collections::BTreeSet<u8>, max_largest: u8, latest_largest: u8, o: &mut Outcome, site: &str, replay: &Value, ctx: &str) {
    let lowest_probed = probed.iter().next().copied().unwrap_or(0);
    let flows: Vec<FlowId> = std::iter::once(State::default_flow_id()).chain(state.flows().iter().map(|(_, id)| *id)).collect();
    for flow in flows {
        let res = guarded(|| {
            let hops = state.hops_for_flow(flow);
            let ttls: Vec<u8> = hops.iter().map(trippy_core::Hop::ttl).collect();
            let target = state.target_hop(flow).ttl();
            let flags: Vec<(bool, bool)> = hops.iter().map(|h| (state.is_target(h, flow), state.is_in_round(h, flow))).collect();
            (ttls, target, flags, state.round_count(flow))
        });
        o.hit("queries_never_fail");
        let (ttls, target, flags, _rc) = match res {
            Ok(x) => x,
            Err(p) => {
                o.violate("queries_never_fail", format!("{site}|{}", p.site()), format!("{ctx}: flow {flow}: panic at {}:{}: {}", p.file, p.line, p.message), replay.clone());
                continue;
            }
        };
        if flow != State::default_flow_id() {
            // per-flow windows are judged by C15 against the rounds attributed to the flow
            continue;
        }
        o.hit("window_is_lowest_probed_to_max_path_length");
        let want: Vec<u8> = if lowest_probed == 0 || max_largest == 0 { Vec::new() } else { (lowest_probed..=max_largest).collect() };
        if max_largest >= lowest_probed || want.is_empty() {
            // each probed hop carries its own ttl; a hop inside the window that was never probed
            // (possible only for synthetic rounds) has no ttl yet
            let ok = ttls.len() == want.len() && ttls.iter().zip(&want).all(|(t, w)| t == w || (*t == 0 && !probed.contains(w)));
            if !ok {
                o.violate(
                    "window_is_lowest_probed_to_max_path_length",
                    site,
                    format!("{ctx}: hop ttls {ttls:?}, expected {want:?} (lowest probed {lowest_probed}, greatest path length {max_largest})"),
                    replay.clone(),
                );
            }
        }
        if !ttls.is_empty() {
            o.hit("target_hop_is_latest_path_length");
            if latest_largest == 0 {
                o.hit("silent_round_has_no_target_hop");
            }
            if latest_largest > 0 && target != latest_largest && latest_largest >= lowest_probed && probed.contains(&latest_largest) {
                o.violate("target_hop_is_latest_path_length", site, format!("{ctx}: target hop ttl {target}, latest path length {latest_largest}"), replay.clone());
            }
            for (t, (is_t, in_r)) in ttls.iter().zip(&flags) {
                if *t == 0 {
                    continue;
                }
                if *is_t != (*t == latest_largest) || *in_r != (*t <= latest_largest) {
                    o.violate("target_hop_is_latest_path_length", format!("{site}|flags"), format!("{ctx}: hop {t}: is_target {is_t} in_round {in_r}, latest path length {latest_largest}"), replay.clone());
                }
            }
        }
    }
}

fn e2e_scenario(seed: u64, i: usize, tier: Tier) -> Outcome {
    let mut o = Outcome::default();
    let cells = all_cells(false);
    let cell = cells[i % cells.len()];
    let mut r = Prng::new(seed ^ (i as u64).wrapping_mul(0x9E37_79B9_7F4A_7C15) ^ 0xC10);
    let mut tcfg = cell.trace_cfg();
    tcfg.min_round = ms(40);
    tcfg.max_round = ms(40);
    tcfg.grace = ms(2);
    tcfg.read_timeout = ms(1);
    tcfg.tcp_connect_timeout = ms(40);
    tcfg.max_rounds = Some(tier.pick(8, 30));
    tcfg.first_ttl = *r.pick(&[1u8, 1, 2, 3, 6, 12]);
    tcfg.max_ttl = tcfg.first_ttl + r.range(0, 20) as u8;
    tcfg.max_inflight = *r.pick(&[1u8, 4, 24]);
    let stable = r.chance(1, 2);
    let topo = if stable {
        // stable, loss free, answering: the path length must equal the true distance
        let dist = r.range(1, 25) as usize;
        let hops: Vec<HopSpec> = (0..dist - 1)
            .map(|h| {
                let mut s = HopSpec::simple(scen::hop_addr(cell.v6, h, 0), r.range(100_000, 3_000_000));
                s.quote = Quote::Full;
                if r.chance(1, 8) {
                    s.behaviour = Behaviour::Silent;
                }
                s
            })
            .collect();
        let mut t = HopSpec::simple(tcfg.target, r.range(100_000, 3_000_000));
        t.quote = Quote::Full;
        Topology { hops, target: t, tcp: *r.pick(&[TcpMode::SynAck, TcpMode::Rst]) }
    } else {
        let mut opts = TopoOpts::hostile(10_000_000);
        opts.allow_ext = false;
        let mut t = random_topology(&mut r, cell.v6, &opts);
        if r.chance(1, 4) {
            // nothing answers at all
            for h in t.hops.iter_mut() {
                h.behaviour = Behaviour::Silent;
            }
            t.target.behaviour = Behaviour::Silent;
            t.tcp = TcpMode::Silent;
        }
        t
    };
    let dist = topo.distance();
    let mut wcfg = world_cfg(topo, seed ^ i as u64);
    // route change: after a few rounds the path to the same target becomes longer or shorter and
    // then stays as it is.  Both paths answer everywhere and quickly and the in-flight window
    // covers them, so that the target can be rediscovered within a single round.
    let mut reroute: Option<(usize, u8)> = None;
    if stable && r.chance(1, 3) {
        let lo = u64::from(tcfg.first_ttl).max(1);
        let hi = u64::from(tcfg.max_ttl).min(lo + 18);
        let d1 = r.range(lo, hi) as usize;
        let mut d2 = r.range(lo, hi) as usize;
        if d2 == d1 {
            d2 = if d1 as u64 > lo { d1 - 1 } else { d1 + 1 };
        }
        if d2 as u64 <= hi && hi > lo {
            tcfg.max_inflight = 24;
            tcfg.max_rounds = Some(tcfg.max_rounds.unwrap_or(8).max(12));
            let mk = |d: usize, salt: usize| {
                let hops: Vec<HopSpec> = (0..d - 1)
                    .map(|h| {
                        let mut s = HopSpec::simple(scen::hop_addr(cell.v6, h, salt), 200_000 + 10_000 * h as u64);
                        s.quote = Quote::Full;
                        s
                    })
                    .collect();
                let mut t = HopSpec::simple(tcfg.target, 900_000);
                t.quote = Quote::Full;
                Topology { hops, target: t, tcp: TcpMode::Rst }
            };
            wcfg.topo = mk(d1, 0);
            let switch_round = r.range(2, 4) as usize;
            wcfg.reroutes.push((switch_round as u64 * 40_000_000 + 17_000_000, mk(d2, 1)));
            reroute = Some((switch_round, d2 as u8));
        }
    }
    let dist = if reroute.is_some() { wcfg.topo.distance() } else { dist };
    // TCP: local port collisions (re-issued probes keep their ttl); IPv4 ICMP / UDP: transient
    // send failures, persistently for one ttl in some worlds (a hop whose probes only ever failed
    // still carries its own ttl)
    if cell.protocol == trippy_core::Protocol::Tcp && r.chance(1, 3) {
        wcfg.faults.bind_in_use_pct = r.range(5, 40) as u8;
    }
    if reroute.is_none() && crate::e2e::is_probe_failed_errno(cell.protocol, cell.v6, !cell.unprivileged, crate::world::Op::SendTo, libc::EHOSTUNREACH) && r.chance(1, 4) {
        if r.chance(1, 2) {
            for _ in 0..r.range(1, 8) {
                wcfg.faults.at_op.insert((crate::world::Op::SendTo, r.below(100) as usize), crate::world::Fault { errno: libc::EHOSTUNREACH });
            }
        } else {
            // every send for one particular ttl fails, in every round
            let k = tcfg.first_ttl + r.below(u64::from(tcfg.max_ttl - tcfg.first_ttl) + 1) as u8;
            wcfg.faults.send_fails_for_ttl = Some((k, libc::EHOSTUNREACH));
        }
    }
    // outages: whole rounds in which nothing answers, after rounds in which something did
    if reroute.is_none() && r.chance(1, 3) {
        let from = r.range(1, 5) * 40_000_000;
        wcfg.blackouts.push((from, from + r.range(1, 3) * 40_000_000));
    }
    let site = cell.name();
    let replay = replay_of("C10", seed, i, &tcfg, &wcfg.topo);
    let Some((world, run)) = run_guarded(&wcfg, &tcfg, true, |_| {}, &mut o, &site, &replay, &format!("scenario {i}")) else {
        return o;
    };
    let w = world.inner.lock().unwrap();
    let a = analyse(&w, 0, &run);
    check_bookkeeping(&w, &a, &run, &tcfg, &mut o, &site, &replay);
    let mut probed = std::collections::BTreeSet::new();
    let mut max_largest = 0u8;
    for (ri, round) in run.rounds.iter().enumerate() {
        // "probed" is what went out on the wire (ground truth), not only what the round lists
        for g in &a.rounds[ri].groups {
            if let Some(wid) = g.wire {
                probed.insert(w.wires[wid].ttl);
            }
        }
        for p in &round.probes {
            let t = match p {
                ProbeStatus::Awaited(a) => a.ttl.0,
                ProbeStatus::Complete(c) => c.ttl.0,
                ProbeStatus::Failed(f) => f.ttl.0,
                _ => 0,
            };
            if t > 0 {
                probed.insert(t);
            }
        }
        max_largest = max_largest.max(round.largest_ttl);
        if let Some(s) = &round.snapshot {
            check_window(s, &probed, max_largest, round.largest_ttl, &mut o, &site, &replay, &format!("after round {}", round.index));
        }
    }
    // stable answering path: once the target's response to the probe at its true distance has been
    // read, the path length is that distance
    if let Some((switch_round, d2)) = reroute {
        // three rounds after the route changed the hop table must end at the new distance
        for round in run.rounds.iter().filter(|r| r.index >= switch_round + 4) {
            o.hit("path_length_follows_a_route_change");
            if round.largest_ttl != d2 {
                o.violate(
                    "path_length_follows_a_route_change",
                    site.clone(),
                    format!("round {}: path length {} although the route changed in round {switch_round} from distance {dist} to {d2} and has been stable, answering everywhere, since", round.index, round.largest_ttl),
                    replay.clone(),
                );
                break;
            }
        }
    } else if stable {
        let views = crate::oracles::round_views(&w, &a, &tcfg);
        let mut established = false;
        for (round, v) in run.rounds.iter().zip(&views) {
            established |= v.accepted.iter().any(|x| x.is_target && x.ttl == dist);
            if established {
                o.hit("stable_path_length_is_true_distance");
                if round.largest_ttl != dist {
                    o.violate("stable_path_length_is_true_distance", site.clone(), format!("round {}: path length {} but the target answered at its true distance {dist}", round.index, round.largest_ttl), replay.clone());
                    break;
                }
            }
        }
        // ... and on a clean path (every hop answers within a few ms, nothing fails, no outage)
        // whose probed part fits the in-flight window, the target does answer at its true
        // distance within the run: the length cannot stay short (or zero) for ever
        let clean = w.cfg.topo.hops.iter().all(|h| h.behaviour != Behaviour::Silent)
            && w.cfg.faults.at_op.is_empty()
            && w.cfg.faults.send_fails_for_ttl.is_none()
            && w.cfg.faults.bind_in_use_pct == 0
            && w.cfg.blackouts.is_empty();
        if clean && dist >= tcfg.first_ttl && dist <= tcfg.max_ttl {
            let span = dist - tcfg.first_ttl + 1;
            if span <= 16 && tcfg.max_inflight >= span && run.result.is_ok() {
                o.hit("stable_answering_path_is_discovered");
                if !established || run.rounds.last().is_some_and(|r| r.largest_ttl != dist) {
                    o.violate(
                        "stable_answering_path_is_discovered",
                        format!("{site}|first{}|inflight{}", u8::from(tcfg.first_ttl > 1), u8::from(tcfg.max_inflight < tcfg.first_ttl)),
                        format!("after {} rounds the path length is {:?} although every hop from first-ttl {} to the target at distance {dist} answers within 3ms, nothing fails and max-inflight {} covers the whole path", run.rounds.len(), run.rounds.last().map(|r| r.largest_ttl), tcfg.first_ttl, tcfg.max_inflight),
                        replay.clone(),
                    );
                }
            }
        }
    }
    let nothing = run.rounds.iter().all(|r| r.probes.iter().all(|p| !matches!(p, ProbeStatus::Complete(_))));
    if nothing {
        o.hit("nothing_answers_means_zero_and_empty");
        for round in &run.rounds {
            if round.largest_ttl != 0 || round.snapshot.as_ref().is_some_and(|s| !s.hops().is_empty()) {
                o.violate("nothing_answers_means_zero_and_empty", site.clone(), format!("round {}: path length {} although nothing has answered", round.index, round.largest_ttl), replay.clone());
                break;
            }
        }
    }
    o.observe("shapes", format!("first{}|{}|{}", tcfg.first_ttl, if stable { "stable" } else { "hostile" }, if nothing { "silent" } else { "answering" }));
    o.nontrivial = Some(format!("{site}|first{}|max{}|dist{dist}|{stable}", tcfg.first_ttl, tcfg.max_ttl));
    if i < 2 {
        o.sample = Some(json!({"scenario": i, "cell": site, "first_ttl": tcfg.first_ttl, "max_ttl": tcfg.max_ttl, "distance": dist,
            "path_lengths": run.rounds.iter().map(|r| r.largest_ttl).collect::<Vec<_>>(),
            "hop_ttls_final": run.final_state.hops().iter().map(trippy_core::Hop::ttl).collect::<Vec<_>>()}));
    }
    o
}

/// Synthetic round sequences with arbitrary path lengths, fed through the public State API.
fn synthetic(seed: u64, i: usize) -> Outcome {
    let mut o = Outcome::default();
    let mut r = Prng::new(seed ^ (i as u64).wrapping_mul(0xD134_2543_DE82_EF95) ^ 0x510);
    let mut state = State::new(StateConfig { max_samples: 16, max_flows: *r.pick(&[1usize, 4, 64]) });
    let rounds = r.range(1, 25) as usize;
    let first = *r.pick(&[1u8, 1, 2, 7, 100, 254]);
    let site = "synthetic".to_string();
    let replay = json!({"how": format!("vcheck C10 --seed {seed} --only s{i}"), "scenario": format!("s{i}")});
    let mut probed = std::collections::BTreeSet::new();
    let mut max_largest = 0u8;
    let t0 = SystemTime::UNIX_EPOCH + Duration::from_secs(1_700_000_000);
    let mut log = Vec::new();
    for k in 0..rounds {
        let n = r.below(12) as u8;
        // the strategy always starts a round at first-ttl
        let first_k = first;
        let mut probes = Vec::new();
        for j in 0..n {
            let ttl = first_k.saturating_add(j);
            if ttl > 254 {
                break;
            }
            let p = probe_new(Sequence(33000 + u16::from(j)), TraceId(1), Port(0), Port(0), TimeToLive(ttl), RoundId(k), t0, Flags::empty());
            // a round always has a probe at first-ttl (a skipped slot is re-issued at the same ttl)
            probes.push(match if j == 0 { r.below(2) * 3 } else { r.below(4) } {
                0 => ProbeStatus::Awaited(p),
                1 => ProbeStatus::Skipped,
                2 => ProbeStatus::NotSent,
                _ => ProbeStatus::Complete(crate::synth::complete(p, IpAddr::V4(Ipv4Addr::new(10, 0, 0, ttl)), t0 + Duration::from_millis(5), IcmpPacketType::NotApplicable, None, None, None, None)),
            });
        }
        for p in &probes {
            let t = match p {
                ProbeStatus::Awaited(a) => a.ttl.0,
                ProbeStatus::Complete(c) => c.ttl.0,
                _ => 0,
            };
            if t > 0 {
                probed.insert(t);
            }
        }
        // arbitrary path length: zero, or anything from the lowest ttl probed so far upwards
        let lowest = probed.iter().next().copied().unwrap_or(0);
        let largest = match r.below(4) {
            0 => 0,
            _ if lowest == 0 => 0,
            1 => r.range(u64::from(lowest), 254) as u8,
            _ => first_k.saturating_add(n).saturating_sub(1).clamp(lowest, 254),
        };
        max_largest = max_largest.max(largest);
        log.push(json!({"round": k, "largest_ttl": largest, "probes": probes.len()}));
        let round = Round::new(&probes, TimeToLive(largest), CompletionReason::TargetFound);
        match guarded(|| state.update_from_round(&round)) {
            Ok(()) => {}
            Err(p) => {
                o.violate("queries_never_fail", format!("{site}|update|{}", p.site()), format!("update_from_round panicked at {}:{}: {} ({:?})", p.file, p.line, p.message, log.last()), replay.clone());
                return o;
            }
        }
        check_window(&state, &probed, max_largest, largest, &mut o, &site, &replay, &format!("after synthetic round {k}"));
    }
    o.count("synthetic_rounds", rounds as u64);
    o.nontrivial = Some(format!("synthetic|{first}|{rounds}|{i}"));
    if i == 0 {
        o.sample = Some(json!({"synthetic": log}));
    }
    o
}

pub fn run(tier: Tier, seed: u64, only: Option<String>) -> i32 {
    let mut rep = Report::new("C10", "exploration", tier, seed);
    rep.rule = "e2e scenario = cell x (first-ttl in {1,2,3,6,12}, max-ttl = first + 0..20, inflight in {1,4,24}) x (stable answering path of length 1..25 with silent routers | a route change to a longer or shorter path after 2..4 rounds, both paths answering everywhere | hostile random topology | nothing answers); after every published round the snapshot's hop list, target hop, is_target / is_in_round flags are checked for the default flow, and every query is executed for every registered flow under catch_unwind; synthetic scenario = up to 25 rounds through State::update_from_round with arbitrary probe mixes and arbitrary path lengths (0..254, not tied to the probes); distinct by (cell, ttl window, distance, kind)".into();
    rep.assumptions = vec![
        "the latest / greatest path length are taken from the published Round.largest_ttl values; largest_ttl itself is recomputed from genuine accepted responses (bookkeeping model) and, on stable answering paths, compared with the topology's true distance".into(),
        "synthetic path lengths are zero or at least the lowest ttl probed so far (a smaller value is outside what the strategy can publish and State::hops() panics on it: slice index starts at lowest-1 but ends at the path length; reported in DESIGN.md as out of the property's scope)".into(),
    ];
    rep.required_clauses = vec!["path_length_follows_a_route_change", 
        "queries_never_fail",
        "window_is_lowest_probed_to_max_path_length",
        "target_hop_is_latest_path_length",
        "stable_path_length_is_true_distance",
        "nothing_answers_means_zero_and_empty",
        "silent_round_has_no_target_hop",
        "largest_ttl_from_genuine_responses",
    ];
    let n = tier.pick(30_000, 400_000);
    let m = tier.pick(30_000, 1_000_000);
    match only {
        Some(s) if s.starts_with('s') => rep.merge(synthetic(seed, s[1..].parse().unwrap_or(0))),
        Some(s) => {
            let o = e2e_scenario(seed, s.parse().unwrap_or(0), tier);
            for v in &o.violations {
                println!("{}: {}", v.signature(), v.detail);
            }
            rep.merge(o);
        }
        None => rep.run_parallel(n + m, |i| if i < n { e2e_scenario(seed, i, tier) } else { synthetic(seed, i - n) }),
    }
    rep.finish()
}
