//! C03 - only genuine current-round responses can complete a probe.
use crate::e2e::{check_outcomes, replay_of, E2eOpts};
use crate::forge;
use crate::framework::{guarded, Outcome, Report, Tier};
use crate::oracles::{check_bookkeeping, check_scheduling, loop_start};
use crate::prng::Prng;
use crate::scen::{self, all_cells, ms, random_topology, world_cfg, Cell, TopoOpts};
use crate::sim::{run_tracer, RunOpts, RunResult, TraceCfg};
use crate::truth::analyse;
use crate::wire::{Ip4, Ip6};
use crate::world::{Adversary, Forgery, Injected, PktClass, WirePacket, World, WorldCfg};
use serde_json::json;
use std::collections::BTreeMap;
use std::net::IpAddr;
use std::sync::Arc;
use trippy_core::{MultipathStrategy, PortDirection, ProbeStatus, Protocol};

/// Install a script that forges responses which need knowledge of the tracer configuration.
fn install_script(world: &Arc<World>, tcfg: &TraceCfg, density_pct: u64, round_ns: u64) -> Arc<std::sync::Mutex<std::collections::HashMap<usize, Vec<u16>>>> {
    // the "never sent" sequences forged per wire packet: a forgery that arrives so late that the
    // tracer has meanwhile issued that very sequence is no forgery any more (see run_scenario)
    let never_sent: Arc<std::sync::Mutex<std::collections::HashMap<usize, Vec<u16>>>> = Arc::new(std::sync::Mutex::new(std::collections::HashMap::new()));
    let never_sent2 = never_sent.clone();
    let tcfg = tcfg.clone();
    let (host4, host6, router, target) = {
        let w = world.inner.lock().unwrap();
        let router = w.cfg.topo.hops.first().map_or(w.cfg.topo.target_addr(), |h| h.addrs[0]);
        (w.cfg.host_v4, w.cfg.host_v6, router, w.cfg.topo.target_addr())
    };
    let v6 = tcfg.target.is_ipv6();
    let script = move |wp: &WirePacket, r: &mut Prng| -> Vec<Injected> {
        let mut out = Vec::new();
        let Some(seq) = forge::get_sequence(&tcfg, &wp.bytes) else { return out };
        // the datagram as a router would see it
        let mut transit = wp.bytes.clone();
        if v6 {
            transit[7] = 1;
        } else if let Ok(mut ip) = Ip4::parse(&transit) {
            ip.ttl = 1;
            ip.fix_hdr_csum();
            transit = ip.bytes();
        }
        let mut push = |out: &mut Vec<Injected>, r: &mut Prng, f: Forgery, dgram: Vec<u8>, target_like: bool| {
            let from = if target_like { target } else { router };
            let q = forge::truncate_quote(&dgram, v6);
            let (bytes, src) = forge::icmp_error(v6, from, host4, host6, target_like && tcfg.protocol != Protocol::Icmp, &q, 0);
            // arrive anywhere from "immediately" to just after the next round started
            let delay = match r.below(4) {
                0 => r.range(1_000, 200_000),
                1 => r.range(200_000, round_ns / 2 + 200_001),
                2 => r.range(round_ns.saturating_sub(100_000), round_ns + 100_000),
                _ => r.range(1_000, round_ns + round_ns / 2),
            };
            out.push(forge::injected(delay, v6, bytes, src, PktClass::Forged(f)));
        };
        if r.chance(density_pct, 100) {
            // a sequence that is inside the round's 512 wide window but was never issued
            let k = r.range(270, 440) as u16;
            if let Some(s2) = seq.checked_add(k) {
                never_sent2.lock().unwrap().entry(wp.id).or_default().push(s2);
                let d = forge::set_sequence(&tcfg, &transit, s2);
                let tl = r.chance(1, 2);
                push(&mut out, r, Forgery::NeverSentInWindow, d, tl);
                if tcfg.protocol == Protocol::Icmp && r.chance(1, 2) {
                    let id = tcfg.trace_id;
                    let bytes = forge::echo_reply(v6, target, host4, host6, id, s2, 8);
                    out.push(forge::injected(r.range(1_000, round_ns), v6, bytes, target, PktClass::Forged(Forgery::NeverSentInWindow)));
                }
            }
        }
        if r.chance(density_pct, 100) {
            let s2 = if r.chance(1, 2) { seq.wrapping_sub(r.range(600, 5_000) as u16) } else { seq.wrapping_add(r.range(600, 5_000) as u16) };
            never_sent2.lock().unwrap().entry(wp.id).or_default().push(s2);
            let d = forge::set_sequence(&tcfg, &transit, s2);
            let tl = r.chance(1, 2);
            push(&mut out, r, Forgery::NeverSentOutside, d, tl);
        }
        if r.chance(density_pct, 100) && tcfg.protocol != Protocol::Icmp {
            // another tracer instance: same everything, but another fixed port
            let hl = if v6 { 40 } else { 20 };
            let mut d = transit.clone();
            let off = match tcfg.ports {
                PortDirection::FixedSrc(_) => hl,
                // both ports identify the tracer: alter one of them
                PortDirection::FixedBoth(_, _) => hl + 2 * r.below(2) as usize,
                _ => hl + 2,
            };
            if d.len() >= off + 2 {
                let p = u16::from_be_bytes([d[off], d[off + 1]]) ^ 0x0101;
                d[off..off + 2].copy_from_slice(&p.to_be_bytes());
                let tl = r.chance(1, 2);
                push(&mut out, r, Forgery::OtherTracer, d, tl);
            }
        }
        if r.chance(density_pct, 100) && tcfg.protocol == Protocol::Icmp {
            // an echo reply for another tracer's identifier carrying one of our sequence numbers
            let mut id = tcfg.trace_id.wrapping_add(1 + r.below(3) as u16);
            if id == 0 {
                id = 3;
            }
            let bytes = forge::echo_reply(v6, target, host4, host6, id, seq, 8);
            out.push(forge::injected(r.range(1_000, round_ns), v6, bytes, target, PktClass::Forged(Forgery::OtherTracer)));
        }
        if tcfg.protocol != Protocol::Icmp && r.chance(density_pct, 100) {
            // an ICMP echo reply (identifier 0 = "any", or the tracer's own) naming the sequence
            // of the UDP / TCP probe just sent: not a response to a UDP or TCP probe
            let id = if r.chance(1, 2) { 0 } else { tcfg.trace_id };
            let bytes = forge::echo_reply(v6, target, host4, host6, id, seq, 8);
            out.push(forge::injected(r.range(1_000, round_ns / 2 + 1_001), v6, bytes, target, PktClass::Forged(Forgery::OtherProto)));
        }
        if tcfg.protocol == Protocol::Udp && tcfg.strategy == MultipathStrategy::Dublin && v6 && seq == tcfg.initial_sequence && transit.len() >= 48 {
            // another process on the host sends an empty datagram along the same flow (same
            // addresses and ports): its quotation carries no marker at all
            let mut d = transit[..48].to_vec();
            d[4..6].copy_from_slice(&8u16.to_be_bytes());
            d[44..46].copy_from_slice(&8u16.to_be_bytes());
            push(&mut out, r, Forgery::NoMagic, d, false);
        }
        if tcfg.protocol == Protocol::Udp && tcfg.strategy == MultipathStrategy::Dublin && v6 && r.chance(density_pct, 100) {
            // Dublin marker removed
            let mut d = transit.clone();
            if d.len() >= 54 {
                for b in &mut d[48..54] {
                    *b = 0;
                }
                push(&mut out, r, Forgery::NoMagic, d, false);
            }
        }
        out
    };
    world.inner.lock().unwrap().inject_on_send.push(Box::new(script));
    never_sent
}

pub struct Scenario {
    pub cell: Cell,
    pub tcfg: TraceCfg,
    pub wcfg: WorldCfg,
    pub density: u64,
    pub round_ns: u64,
}

pub fn scenario(seed: u64, i: usize, cells: &[Cell], tier: Tier) -> Scenario {
    let cell = cells[i % cells.len()];
    let mut r = Prng::new(seed ^ (i as u64).wrapping_mul(0x9E37_79B9_7F4A_7C15) ^ 0xC03);
    let mut tcfg = cell.trace_cfg();
    let round_ms = *r.pick(&[20u64, 50, 100]);
    tcfg.min_round = ms(*r.pick(&[0, round_ms / 2, round_ms]));
    tcfg.max_round = ms(round_ms);
    tcfg.grace = ms(*r.pick(&[0u64, 5, 20]));
    tcfg.read_timeout = ms(*r.pick(&[1u64, 5]));
    tcfg.tcp_connect_timeout = ms(round_ms);
    tcfg.max_rounds = Some(tier.pick(r.range(30, 60), r.range(200, 1000)) as usize);
    tcfg.max_ttl = r.range(4, 30) as u8;
    // wrap-around inside the run: start close below the wrap point
    tcfg.initial_sequence = *r.pick(&[0u16, 33434, 64_511, 64_300, 64_000]);
    // (0 is the library's default identifier: such a tracer must still ignore responses that
    // carry another tracer's non-zero identifier)
    tcfg.trace_id = *r.pick(&[1234u16, 65_534, 65_535, 1, 0]);
    let mut o = TopoOpts::hostile(round_ms * 1_000_000 / 3);
    o.max_hops = 10;
    o.allow_ext = false;
    let topo = random_topology(&mut r, cell.v6, &o);
    let mut wcfg = world_cfg(topo, seed ^ i as u64);
    // TCP: local port collisions leave skipped slots (sequences that were never put on the wire)
    if cell.protocol == Protocol::Tcp && r.chance(1, 3) {
        wcfg.faults.bind_in_use_pct = r.range(5, 30) as u8;
    }
    let density = *r.pick(&[10u64, 30, 100]);
    wcfg.adversary = Adversary {
        forgeries: vec![
            (Forgery::OtherDest, density as u8 / 2),
            (Forgery::OtherTracer, density as u8 / 2),
            (Forgery::OtherProto, density as u8 / 2),
            (Forgery::OtherIcmpType, density as u8 / 3),
            (Forgery::OtherTeCode, density as u8 / 3),
        ],
        offset_ns: (-200_000, 400_000),
        late_pct: density.min(60) as u8,
        late_delay_ns: (round_ms * 1_000_000 / 2, round_ms * 1_000_000 * 2),
    };
    Scenario {
        cell,
        tcfg,
        wcfg,
        density,
        round_ns: round_ms * 1_000_000,
    }
}

fn check_one(world: &Arc<World>, idx: usize, run: &RunResult, tcfg: &TraceCfg, o: &mut Outcome, site: &str, replay: &serde_json::Value) {
    let w = world.inner.lock().unwrap();
    if let Err(e) = &run.result {
        o.violate("run_completes", format!("{site}|{}", e.split(':').next().unwrap_or("")), format!("tracer {idx}: run failed: {e}"), replay.clone());
    }
    let a = analyse(&w, idx, run);
    check_outcomes(&w, &a, run, tcfg, o, site, replay, &E2eOpts { check_ext: false });
    check_bookkeeping(&w, &a, run, tcfg, o, site, replay);
    check_scheduling(&w, &a, run, tcfg, o, site, replay, None);
    crate::oracles::check_timing_for(&w, idx, &a, run, tcfg, o, site, replay, loop_start(&w, idx));
    // what was delivered to the tracer, by class
    let mut by_class: BTreeMap<String, u64> = BTreeMap::new();
    for rt in a.rounds.iter().chain(std::iter::once(&a.tail)) {
        let wires: std::collections::HashSet<usize> = rt.groups.iter().filter_map(|g| g.wire).collect();
        for rd in &rt.reads {
            let mut k = match &rd.class {
                PktClass::Genuine { copy: 0 } => "genuine".to_string(),
                PktClass::Genuine { .. } => "duplicate".to_string(),
                PktClass::Late => "late-copy".to_string(),
                PktClass::Forged(f) => format!("forged:{f:?}"),
                PktClass::Noise => "noise".to_string(),
            };
            if !matches!(rd.class, PktClass::Forged(_)) && rd.wire.is_some_and(|x| !wires.contains(&x)) && w.wires[rd.wire.unwrap()].tracer == idx {
                k = format!("{k}:previous-round");
            }
            if rd.wire.is_some_and(|x| w.wires[x].tracer != idx) {
                k = format!("{k}:other-tracer");
            }
            *by_class.entry(k).or_insert(0) += 1;
        }
    }
    for (k, n) in &by_class {
        o.count(&format!("responses_read:{k}"), *n);
    }
    let wrapped = run.rounds.windows(2).any(|p| first_seq(&p[1].probes) < first_seq(&p[0].probes));
    if wrapped {
        o.count("runs_with_sequence_wrap", 1);
    }
    let adversarial = by_class.keys().filter(|k| k.starts_with("forged") || k.contains("previous-round") || k.contains("other-tracer") || k.starts_with("duplicate")).count();
    let complete = run.rounds.iter().flat_map(|r| &r.probes).filter(|p| matches!(p, ProbeStatus::Complete(_))).count();
    if adversarial >= 2 && complete > 0 {
        o.nontrivial = Some(format!("{site}#{}#{}", by_class.keys().cloned().collect::<Vec<_>>().join(","), wrapped));
    }
}

fn first_seq(p: &[ProbeStatus]) -> Option<u16> {
    p.iter().find_map(|p| match p {
        ProbeStatus::Awaited(a) => Some(a.sequence.0),
        ProbeStatus::Complete(c) => Some(c.sequence.0),
        ProbeStatus::Failed(f) => Some(f.sequence.0),
        _ => None,
    })
}

pub fn run_scenario(seed: u64, i: usize, cells: &[Cell], tier: Tier) -> Outcome {
    let mut o = Outcome::default();
    let sc = scenario(seed, i, cells, tier);
    let mut replay = replay_of("C03", seed, i, &sc.tcfg, &sc.wcfg.topo);
    replay["adversary"] = json!(format!("{:?} script density {}%", sc.wcfg.adversary, sc.density));
    let site = sc.cell.name();
    let res = guarded(|| {
        let world = World::new(sc.wcfg.clone());
        let never_sent = install_script(&world, &sc.tcfg, sc.density, sc.round_ns);
        let tracer = sc.tcfg.builder().build().map_err(|e| format!("build: {e}"))?;
        let r = run_tracer(&world, 0, &tracer, &RunOpts { snapshots: false });
        Ok::<_, String>((world, r, never_sent))
    });
    let (world, run, never_sent) = match res {
        Err(p) if p.in_repo() => {
            o.violate("no_panic", format!("{site}|{}", p.site()), format!("panic at {}:{}: {}", p.file, p.line, p.message), replay);
            return o;
        }
        Err(p) => {
            o.harness_error = Some(format!("scenario {i}: harness panic at {}:{}: {}", p.file, p.line, p.message));
            return o;
        }
        Ok(Err(e)) => {
            o.harness_error = Some(format!("scenario {i}: {e}"));
            return o;
        }
        Ok(Ok(x)) => x,
    };
    // a forged "never sent" sequence that the tracer did issue in the round in which the forgery
    // was read (rounds can be much shorter than the forgery's delay) is indistinguishable from a
    // genuine response: such a scenario proves nothing and is not judged
    {
        let w = world.inner.lock().unwrap();
        let a = analyse(&w, 0, &run);
        let ns = never_sent.lock().unwrap();
        let collided = a.rounds.iter().zip(&run.rounds).any(|(rt, round)| {
            let issued: std::collections::HashSet<u16> = round
                .probes
                .iter()
                .filter_map(|p| match p {
                    ProbeStatus::Awaited(a) => Some(a.sequence.0),
                    ProbeStatus::Complete(c) => Some(c.sequence.0),
                    ProbeStatus::Failed(f) => Some(f.sequence.0),
                    _ => None,
                })
                .collect();
            rt.reads.iter().any(|rd| {
                matches!(rd.class, PktClass::Forged(Forgery::NeverSentInWindow | Forgery::NeverSentOutside)) && rd.wire.and_then(|wid| ns.get(&wid)).is_some_and(|v| v.iter().any(|s2| issued.contains(s2)))
            })
        });
        if collided {
            o.count("scenarios_not_judged_a_forged_sequence_had_been_issued_when_it_arrived", 1);
            return o;
        }
    }
    check_one(&world, 0, &run, &sc.tcfg, &mut o, &site, &replay);
    o.observe("cells", site.clone());
    if i < 2 {
        let w = world.inner.lock().unwrap();
        o.sample = Some(json!({
            "scenario": i, "cell": site, "adversary": format!("{:?}", sc.wcfg.adversary), "script_density_pct": sc.density,
            "rounds": run.rounds.len(),
            "packets_generated": w.pkts.iter().take(25).map(|p| format!("arrive={} class={:?} kind={:?} wire={:?} src={}", p.arrive, p.class, p.kind, p.wire, p.src)).collect::<Vec<_>>(),
        }));
    }
    o
}

// ------------------------------------------------------------------------------------------------
// never-sent sequences whose buffer slot still holds an awaited probe of an earlier round

pub fn run_stale(seed: u64, i: usize, cells: &[Cell], tier: Tier) -> Outcome {
    use crate::world::{Behaviour, HopSpec, TcpMode, Topology};
    let mut o = Outcome::default();
    let cell = cells[i % cells.len()];
    let mut r = Prng::new(seed ^ (i as u64).wrapping_mul(0x9E37_79B9_7F4A_7C15) ^ 0x57A1E);
    let mut tcfg = cell.trace_cfg();
    let round_ms = 40u64;
    tcfg.min_round = ms(round_ms);
    tcfg.max_round = ms(round_ms);
    tcfg.grace = ms(1);
    tcfg.read_timeout = ms(1);
    tcfg.tcp_connect_timeout = ms(round_ms);
    tcfg.max_rounds = Some(tier.pick(8, 30));
    tcfg.max_ttl = 30;
    tcfg.max_inflight = 24;
    let d = r.range(2, 6) as usize;
    // every other scenario runs until the sequence numbers wrap back to the initial sequence: the
    // round after the wrap starts at the base of round 0, so a never-sent sequence names a stale
    // slot whose old probe carries exactly that sequence
    let wrap = i % 2 == 1;
    if wrap {
        tcfg.initial_sequence = 64_511 - r.range(0, 40) as u16;
        tcfg.max_rounds = Some(820 / d + 30);
    }
    let target = tcfg.target;
    let v6 = cell.v6;
    // hops answer slowly in round 0 so that many probes go out before the target is known
    let hops: Vec<HopSpec> = (0..d - 1)
        .map(|h| {
            let mut s = HopSpec::simple(scen::hop_addr(v6, h, 0), 6_000_000 + r.range(0, 1_000_000));
            s.quote = crate::world::Quote::Full;
            s
        })
        .collect();
    let mut t = HopSpec::simple(target, 8_000_000);
    t.quote = crate::world::Quote::Full;
    // the target answers only the first two probes of every round: the others stay awaited
    t.behaviour = Behaviour::RateLimit { burst: 2, refill_ns: round_ms * 1_000_000 / 2 };
    let topo = Topology { hops, target: t, tcp: TcpMode::Rst };
    let wcfg = world_cfg(topo, seed ^ i as u64);
    let site = cell.name();
    let replay = json!({"how": format!("vcheck C03 --seed {seed} --only s{i}"), "scenario": format!("s{i}"), "cell": site, "distance": d, "config": format!("{tcfg:?}")});
    let forged: Arc<std::sync::Mutex<Vec<(usize, u16)>>> = Arc::new(std::sync::Mutex::new(Vec::new()));
    let res = guarded(|| {
        let world = World::new(wcfg.clone());
        let (host4, host6, router) = {
            let w = world.inner.lock().unwrap();
            (w.cfg.host_v4, w.cfg.host_v6, w.cfg.topo.hops.first().map_or(target, |h| h.addrs[0]))
        };
        let tc = tcfg.clone();
        let forged2 = forged.clone();
        let mut round_no = 0usize;
        let script = move |wp: &WirePacket, r: &mut Prng| -> Vec<Injected> {
            let mut out = Vec::new();
            if wp.ttl != tc.first_ttl {
                return out;
            }
            round_no += 1;
            if round_no < 3 {
                return out;
            }
            let Some(s0) = forge::get_sequence(&tc, &wp.bytes) else { return out };
            let j = r.range(d as u64 + 3, 20) as u16;
            let Some(s2) = s0.checked_add(j) else { return out };
            let mut transit = forge::set_sequence(&tc, &wp.bytes, s2);
            if v6 {
                transit[7] = 1;
            } else if let Ok(mut ip) = Ip4::parse(&transit) {
                ip.ttl = 1;
                ip.fix_hdr_csum();
                transit = ip.bytes();
            }
            let target_like = r.chance(1, 2);
            let from = if target_like { target } else { router };
            let q = forge::truncate_quote(&transit, v6);
            let (bytes, src) = forge::icmp_error(v6, from, host4, host6, target_like && tc.protocol != Protocol::Icmp, &q, 0);
            forged2.lock().unwrap().push((round_no - 1, s2));
            out.push(forge::injected(r.range(2_000_000, 15_000_000), v6, bytes, src, PktClass::Forged(Forgery::NeverSentInWindow)));
            out
        };
        world.inner.lock().unwrap().inject_on_send.push(Box::new(script));
        let tracer = tcfg.builder().build().map_err(|e| format!("build: {e}"))?;
        let run = run_tracer(&world, 0, &tracer, &RunOpts { snapshots: false });
        Ok::<_, String>((world, run))
    });
    let (world, run) = match res {
        Err(p) if p.in_repo() => {
            o.violate("no_panic", format!("{site}|{}", p.site()), format!("panic at {}:{}: {}", p.file, p.line, p.message), replay);
            return o;
        }
        Err(p) => {
            o.harness_error = Some(format!("stale scenario {i}: harness panic at {}:{}: {}", p.file, p.line, p.message));
            return o;
        }
        Ok(Err(e)) => {
            o.harness_error = Some(format!("stale scenario {i}: {e}"));
            return o;
        }
        Ok(Ok(x)) => x,
    };
    // a forged sequence that the tracer did issue in that round is indistinguishable from a
    // genuine response: such a scenario proves nothing and is not judged
    let issued_collision = forged.lock().unwrap().iter().any(|(round, s2)| {
        run.rounds.get(*round).is_some_and(|r| {
            r.probes.iter().any(|p| match p {
                ProbeStatus::Awaited(a) => a.sequence.0 == *s2,
                ProbeStatus::Complete(c) => c.sequence.0 == *s2,
                ProbeStatus::Failed(f) => f.sequence.0 == *s2,
                _ => false,
            })
        })
    });
    if issued_collision {
        o.count("stale_slot_scenarios_discarded_sequence_was_issued", 1);
        return o;
    }
    // how many of the forged sequences pointed at a slot still holding an awaited probe?
    let awaited_round0: std::collections::HashSet<usize> = run.rounds.first().map_or_else(Default::default, |r0| {
        r0.probes.iter().enumerate().filter(|(_, p)| matches!(p, ProbeStatus::Awaited(_))).map(|(k, _)| k).collect()
    });
    let s_first0 = run.rounds.first().and_then(|r| first_seq(&r.probes));
    let mut stale_hits = 0u64;
    let mut same_seq_hits = 0u64;
    for (round, s2) in forged.lock().unwrap().iter() {
        if let Some(sf) = run.rounds.get(*round).and_then(|r| first_seq(&r.probes)) {
            let idx = usize::from(s2.wrapping_sub(sf));
            if awaited_round0.contains(&idx) && s_first0.is_some() {
                stale_hits += 1;
                if *round > 0 && Some(sf) == s_first0 {
                    same_seq_hits += 1;
                }
            }
        }
    }
    o.count("forged_sequences_aimed_at_a_stale_awaited_slot", stale_hits);
    o.count("forged_sequences_equal_to_the_stale_probes_sequence_after_a_wrap", same_seq_hits);
    check_one(&world, 0, &run, &tcfg, &mut o, &site, &replay);
    let w = world.inner.lock().unwrap();
    let a = analyse(&w, 0, &run);
    check_scheduling(&w, &a, &run, &tcfg, &mut o, &site, &replay, Some(d as u8));
    if stale_hits > 0 {
        o.nontrivial = Some(format!("{site}#stale#{d}"));
    }
    o
}

// ------------------------------------------------------------------------------------------------
// several tracers sharing one host

fn multi_targets(v6: bool, k: usize) -> Vec<IpAddr> {
    (0..k)
        .map(|i| {
            if v6 {
                IpAddr::V6(format!("fd00:c8::{:x}", i + 1).parse().unwrap())
            } else {
                IpAddr::V4(std::net::Ipv4Addr::new(10, 200, 0, i as u8 + 1))
            }
        })
        .collect()
}

/// Time-abstracted hop table up to the target: per round, ttl -> responder.
fn hop_table(run: &RunResult, dist: u8) -> Vec<BTreeMap<u8, String>> {
    run.rounds
        .iter()
        .map(|r| {
            r.probes
                .iter()
                .filter_map(|p| match p {
                    ProbeStatus::Complete(c) if c.ttl.0 <= dist => Some((c.ttl.0, format!("{} {:?}", c.host, c.icmp_packet_type))),
                    ProbeStatus::Awaited(a) if a.ttl.0 <= dist => Some((a.ttl.0, "*".to_string())),
                    _ => None,
                })
                .collect()
        })
        .collect()
}

pub fn run_multi(seed: u64, i: usize, tier: Tier) -> Outcome {
    let mut o = Outcome::default();
    let mut r = Prng::new(seed ^ (i as u64).wrapping_mul(0xA24B_AED4_963E_E407) ^ 0xC03F);
    let k = r.range(2, 4) as usize;
    let v6 = r.chance(1, 2);
    let protocol = *r.pick(&[Protocol::Icmp, Protocol::Icmp, Protocol::Udp, Protocol::Tcp]);
    // the CLI gives tracer i the identifier pid + i (wrapping u16 arithmetic)
    // pid = process id mod 65535, i.e. 0..=65534
    let pid = *r.pick(&[1000u16, 65_534, 65_533, 0, 7]);
    let same_target = protocol == Protocol::Icmp && r.chance(1, 2);
    let targets = multi_targets(v6, k);
    let round_ms = 40u64;
    let mut o2 = TopoOpts::clean(round_ms * 1_000_000 / 4);
    o2.max_hops = 8;
    o2.allow_ext = false;
    let topo = random_topology(&mut r, v6, &o2);
    let dist = topo.distance();
    let mut wcfg = world_cfg(topo, seed ^ (i as u64) << 8);
    wcfg.tracers = k;
    wcfg.alt_targets = targets.clone();
    let rounds = tier.pick(12, 100);
    let cfgs: Vec<TraceCfg> = (0..k)
        .map(|t| {
            let cell = Cell {
                protocol,
                v6,
                strategy: MultipathStrategy::Classic,
                ports: if protocol == Protocol::Icmp { 0 } else if protocol == Protocol::Udp { 1 } else { 2 },
                unprivileged: false,
                ext: false,
            };
            let mut c = cell.trace_cfg();
            c.target = if same_target { targets[0] } else { targets[t] };
            // the identifier assignment of the CLI launcher (app.rs), through the hook
            c.trace_id = trippy_tui::verif::trace_identifier(pid, t);
            c.min_round = ms(round_ms);
            c.max_round = ms(round_ms);
            c.grace = ms(2);
            c.read_timeout = ms(1);
            c.tcp_connect_timeout = ms(round_ms);
            c.max_ttl = 16;
            c.max_rounds = Some(rounds);
            c
        })
        .collect();
    let site = format!("multi/{protocol}/{}/k{k}/{}", if v6 { "v6" } else { "v4" }, if same_target { "same-target" } else { "own-targets" });
    let replay = json!({"how": format!("vcheck C03 --seed {seed} --only m{i}"), "scenario": format!("m{i}"), "site": site, "pid": pid, "topology": scen::describe_topology(&wcfg.topo)});
    let shared = guarded(|| {
        let world = World::new(wcfg.clone());
        let tracers: Vec<_> = cfgs.iter().map(|c| c.builder().build().unwrap()).collect();
        let runs: Vec<RunResult> = std::thread::scope(|s| {
            let hs: Vec<_> = tracers.iter().enumerate().map(|(t, tr)| {
                let world = world.clone();
                s.spawn(move || run_tracer(&world, t, tr, &RunOpts { snapshots: false }))
            }).collect();
            hs.into_iter().map(|h| h.join().unwrap()).collect()
        });
        (world, runs)
    });
    let (world, runs) = match shared {
        Ok(x) => x,
        Err(p) if p.in_repo() => {
            o.violate("no_panic", format!("{site}|{}", p.site()), format!("panic at {}:{}: {}", p.file, p.line, p.message), replay);
            return o;
        }
        Err(p) => {
            o.harness_error = Some(format!("multi scenario {i}: harness panic at {}:{}: {}", p.file, p.line, p.message));
            return o;
        }
    };
    for (t, (run, c)) in runs.iter().zip(&cfgs).enumerate() {
        check_one(&world, t, run, c, &mut o, &site, &replay);
        // alone, the tracer obtains the same hop table (the world is stable and loss free)
        let mut solo_cfg = wcfg.clone();
        solo_cfg.tracers = 1;
        let solo_world = World::new(solo_cfg);
        let tr = c.builder().build().unwrap();
        match guarded(|| run_tracer(&solo_world, 0, &tr, &RunOpts { snapshots: false })) {
            Ok(solo) => {
                o.hit("same_results_as_alone");
                let (a, b) = (hop_table(run, dist), hop_table(&solo, dist));
                if a != b {
                    let first = a.iter().zip(&b).position(|(x, y)| x != y);
                    o.violate(
                        "same_results_as_alone",
                        site.clone(),
                        format!("tracer {t} (id {}): hop table differs from the solo run at round {first:?}: shared {:?} vs alone {:?}", c.trace_id, first.map(|f| &a[f]), first.map(|f| &b[f])),
                        replay.clone(),
                    );
                }
            }
            Err(p) => o.harness_error = Some(format!("solo run panic {}:{} {}", p.file, p.line, p.message)),
        }
    }
    o.observe("multi_tracer_shapes", site.clone());
    o.count("multi_tracer_worlds", 1);
    o.nontrivial = Some(format!("{site}#pid{pid}"));
    o
}

pub fn run(tier: Tier, seed: u64, only: Option<String>) -> i32 {
    let mut rep = Report::new("C03", "exploration", tier, seed);
    rep.rule = "single-tracer scenario = cell x hostile topology x adversary (per genuine response: duplicates, late copies delayed by 0.5..2 round lengths, near-miss forgeries of 8 classes incl. never-sent sequences inside/outside the round window, other tracer identifiers/ports, other destination/protocol, marker removed) over 30..1000 short rounds with initial sequences that wrap inside the run; multi-tracer scenario = 2..4 tracers with identifiers pid+i (pid incl. 65534/65535) on their own threads sharing one host ICMP queue, baton-scheduled at is_readable; non-trivial = at least two adversarial classes were actually read by the tracer and at least one probe completed; distinct by (cell, set of classes read, wrap seen)".into();
    rep.assumptions = vec![
        "a raw ICMP socket sees every ICMP message addressed to the host (cross-talk between tracers is modelled by copying each message to every tracer's receive queue)".into(),
        "the CLI's identifier assignment (app.rs trace_identifier) is executed through a hook; the launcher itself (spawn on real sockets) is not".into(),
        "bookkeeping is observed through its effects: completion reason, largest_ttl, send schedule and round timing, each recomputed from genuine accepted responses only".into(),
    ];
    rep.required_clauses = vec![
        "complete_iff_genuine_response",
        "awaited_iff_no_genuine_response",
        "reason_iff_genuine_target_response",
        "largest_ttl_from_genuine_responses",
        "published_only_when_policy_allows",
        "no_send_after_target_answered",
        "same_results_as_alone",
    ];
    let cells = all_cells(false);
    let n_single = cells.len() * tier.pick(12, 40);
    let n_multi = tier.pick(200, 1200);
    let n_stale = cells.len() * tier.pick(6, 20);
    match only {
        Some(s) if s.starts_with('s') => {
            let o = run_stale(seed, s[1..].parse().unwrap_or(0), &cells, tier);
            for v in &o.violations {
                println!("{}: {}", v.signature(), v.detail);
            }
            for (k, n) in &o.counters {
                println!("{k}: {n}");
            }
            rep.merge(o);
        }
        Some(s) if s.starts_with('m') => {
            let o = run_multi(seed, s[1..].parse().unwrap_or(0), tier);
            for v in &o.violations {
                println!("{}: {}", v.signature(), v.detail);
            }
            rep.merge(o);
        }
        Some(s) => {
            let o = run_scenario(seed, s.parse().unwrap_or(0), &cells, tier);
            for v in &o.violations {
                println!("{}: {}", v.signature(), v.detail);
            }
            rep.merge(o);
        }
        None => {
          // the identifiers that keep sibling tracers apart reach the tracers: the application's
          // own start_tracer hands each tracer the identifier assigned to its index
          let mut o = Outcome::default();
          for (index, pid) in [(0usize, 4242u16), (1, 4242), (3, 4242), (1, 65_534), (2, 65_533), (0, 1)] {
              match crate::framework::guarded(|| crate::props::c16::started_tracer_identifier(index, pid)) {
                  Ok(Ok(got)) => {
                      o.hit("application_tracers_carry_their_assigned_identifier");
                      let want = trippy_tui::verif::trace_identifier(pid, index);
                      if got != want {
                          o.violate("application_tracers_carry_their_assigned_identifier", if got == 0 { "zero" } else { "other" }, format!("process id {pid}, tracer {index}: assigned identifier {want}, the started tracer uses {got}"), json!({"how": format!("vcheck C03 --seed {seed}"), "pid": pid, "index": index}));
                      }
                  }
                  Ok(Err(e)) => o.count(&format!("application_tracer_not_started:{}", e.chars().take(40).collect::<String>()), 1),
                  Err(p) if p.in_repo() => o.violate("no_panic", format!("application|{}", p.site()), format!("panic at {}:{}: {}", p.file, p.line, p.message), json!({"pid": pid, "index": index})),
                  Err(p) => o.harness_error = Some(format!("harness panic {}:{} {}", p.file, p.line, p.message)),
              }
          }
          rep.merge(o);
          rep.run_parallel(n_single + n_multi + n_stale, |i| {
            if i < n_single {
                run_scenario(seed, i, &cells, tier)
            } else if i < n_single + n_multi {
                run_multi(seed, i - n_single, tier)
            } else {
                run_stale(seed, i - n_single - n_multi, &cells, tier)
            }
          });
        }
    }
    rep.finish()
}

#[allow(dead_code)]
fn unused(_: Ip6) {}
