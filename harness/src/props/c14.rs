//! C14 - ICMP multi-part extensions are parsed faithfully and always terminate.
use crate::e2e::ext_matches;
use crate::framework::{guarded, Outcome, Report, Tier};
use crate::prng::Prng;
use crate::props::c04::{exercise_views, Cfg};
use crate::scen::{self, world_cfg};
use crate::wire::{self, build_err_body, build_extension, mpls_object, ExtObject, MplsEntry, Rfc4884};
use crate::world::{HopSpec, PktClass, TcpMode, Topology, World};
use serde_json::json;
use trippy_core::verif::{Channel, Network, Response, SocketImpl};
use trippy_core::{Extensions, Protocol};
use trippy_packet::icmp_extension::extension_object::ExtensionObjectPacket;
use trippy_packet::icmp_extension::extension_structure::ExtensionsPacket;
use trippy_packet::icmp_extension::mpls_label_stack::MplsLabelStackPacket;
use trippy_packet::icmp_extension::mpls_label_stack_member::MplsLabelStackMemberPacket;
use trippy_packet::{icmpv4, icmpv6};

fn gen_objects(r: &mut Prng, count: usize, max_depth: usize) -> Vec<ExtObject> {
    (0..count)
        .map(|_| {
            if r.chance(2, 3) {
                let depth = r.below(max_depth as u64 + 1) as usize;
                // one stack in four does not mark its bottom entry: it then ends with its object
                let unterminated = r.chance(1, 4);
                let entries: Vec<MplsEntry> = (0..depth)
                    .map(|i| MplsEntry { label: r.below(1 << 20) as u32, exp: r.below(8) as u8, s: u8::from(i + 1 == depth && !unterminated), ttl: r.below(256) as u8 })
                    .collect();
                mpls_object(&entries)
            } else {
                // RFC 4884 gives an object's length in octets and asks for no padding between objects:
                // one unknown-class object in four has a size that is not a multiple of four, and
                // the object after it begins right where its length says it ends
                let n = if r.chance(1, 4) { r.below(36) as usize } else { r.below(9) as usize * 4 };
                ExtObject { class_num: r.range(2, 255) as u8, c_type: r.below(256) as u8, payload: r.bytes(n) }
            }
        })
        // an MPLS object with an empty stack (4 octets) cannot be told apart from "no members";
        // RFC 4950 requires at least one entry
        .map(|o| if o.class_num == 1 && o.payload.is_empty() { mpls_object(&[MplsEntry { label: 3, exp: 0, s: 1, ttl: 1 }]) } else { o })
        .collect()
}

/// (payload, extension) as returned by the four ICMP error views.
fn split_via_views(v6: bool, du: bool, msg: &[u8]) -> Result<(Vec<u8>, Option<Vec<u8>>), String> {
    let r = guarded(|| -> Result<(Vec<u8>, Option<Vec<u8>>), String> {
        Ok(match (v6, du) {
            (false, false) => {
                let p = icmpv4::time_exceeded::TimeExceededPacket::new_view(msg).map_err(|e| e.to_string())?;
                (p.payload().to_vec(), p.extension().map(<[u8]>::to_vec))
            }
            (false, true) => {
                let p = icmpv4::destination_unreachable::DestinationUnreachablePacket::new_view(msg).map_err(|e| e.to_string())?;
                (p.payload().to_vec(), p.extension().map(<[u8]>::to_vec))
            }
            (true, false) => {
                let p = icmpv6::time_exceeded::TimeExceededPacket::new_view(msg).map_err(|e| e.to_string())?;
                (p.payload().to_vec(), p.extension().map(<[u8]>::to_vec))
            }
            (true, true) => {
                let p = icmpv6::destination_unreachable::DestinationUnreachablePacket::new_view(msg).map_err(|e| e.to_string())?;
                (p.payload().to_vec(), p.extension().map(<[u8]>::to_vec))
            }
        })
    });
    match r {
        Ok(x) => x,
        Err(p) => Err(format!("panic at {}:{}: {}", p.file, p.line, p.message)),
    }
}

/// Decode the objects of an extension structure with the packet views.
fn decode_objects(ext: &[u8]) -> Result<Vec<ExtObject>, String> {
    let cap = ext.len() / 4 + 2;
    let r = guarded(|| -> Result<Vec<ExtObject>, String> {
        let p = ExtensionsPacket::new_view(ext).map_err(|e| e.to_string())?;
        let mut out = Vec::new();
        for (i, ob) in p.objects().enumerate() {
            if i > cap {
                return Err("object iteration does not terminate".into());
            }
            let o = ExtensionObjectPacket::new_view(ob).map_err(|e| e.to_string())?;
            out.push(ExtObject { class_num: o.get_class_num().id(), c_type: o.get_class_subtype().0, payload: o.payload().to_vec() });
        }
        Ok(out)
    });
    match r {
        Ok(x) => x,
        Err(p) => Err(format!("panic at {}:{}: {}", p.file, p.line, p.message)),
    }
}

fn decode_mpls(payload: &[u8]) -> Result<Vec<MplsEntry>, String> {
    let cap = payload.len() / 4 + 2;
    let r = guarded(|| -> Result<Vec<MplsEntry>, String> {
        let p = MplsLabelStackPacket::new_view(payload).map_err(|e| e.to_string())?;
        let mut out = Vec::new();
        for (i, m) in p.members().enumerate() {
            if i > cap {
                return Err("label stack iteration does not terminate".into());
            }
            let m = MplsLabelStackMemberPacket::new_view(m).map_err(|e| e.to_string())?;
            out.push(MplsEntry { label: m.get_label(), exp: m.get_exp(), s: m.get_bos(), ttl: m.get_ttl() });
        }
        Ok(out)
    });
    match r {
        Ok(x) => x,
        Err(p) => Err(format!("panic at {}:{}: {}", p.file, p.line, p.message)),
    }
}

fn job(seed: u64, j: usize, tier: Tier) -> Outcome {
    let mut o = Outcome::default();
    let mut r = Prng::new(seed ^ (j as u64).wrapping_mul(0x9E37_79B9_7F4A_7C15) ^ 0xC14);
    let v6 = j % 2 == 1;
    let protocol = [Protocol::Icmp, Protocol::Udp][(j / 2) % 2];
    let site = format!("{}/{}", protocol, if v6 { "v6" } else { "v4" });
    let cfg_on = Cfg { protocol, v6, ext: true };
    let cfg_off = Cfg { protocol, v6, ext: false };
    let word = if v6 { 8 } else { 4 };
    // channels in both extension parse modes over one world
    let topo = Topology { hops: Vec::new(), target: HopSpec::simple(if v6 { scen::target_v6().into() } else { scen::TARGET_V4.into() }, 1_000_000), tcp: TcpMode::Silent };
    let world = World::new(world_cfg(topo, seed));
    let guard = world.attach(0);
    let (mut ch_on, mut ch_off) = {
        // the two channels read from separate receive sockets of the same host: each injected
        // message is delivered to both
        let a = Channel::<SocketImpl>::connect(&cfg_chan(&cfg_on));
        let b = Channel::<SocketImpl>::connect(&cfg_chan(&cfg_off));
        match (a, b) {
            (Ok(a), Ok(b)) => (a, b),
            _ => {
                o.harness_error = Some("channel connect failed".into());
                return o;
            }
        }
    };
    let n = tier.pick(10_000, 400_000);
    let src = scen::hop_addr(v6, 2, 0);
    let max_quote = if v6 { 1232 } else { 1020 };
    for i in 0..n {
        let du = r.chance(1, 2);
        let mode = [Rfc4884::Compliant, Rfc4884::Legacy, Rfc4884::LengthOnly, Rfc4884::None][i % 4];
        // original datagram: a valid probe of any size; quoted to an arbitrary length
        let probe = cfg_on.probe(r.below(980) as usize, true);
        let min_q = if v6 { 48 } else { 28 };
        let mut qlen = match r.below(5) {
            0 => min_q,
            1 => 128,
            2 => r.range(120, 136),
            _ => r.range(min_q as u64, max_quote as u64) as usize as u64,
        } as usize;
        qlen = qlen.min(probe.len());
        let quote = &probe[..qlen];
        let n_obj = r.below(9) as usize;
        let objects = gen_objects(&mut r, n_obj, 16);
        let ext = build_extension(&objects);
        let body = build_err_body(quote, Some(&ext), mode, word);
        let replay = json!({"how": format!("vcheck C14 --seed {seed} --only {j}"), "scenario": j, "index": i, "mode": format!("{mode:?}"), "du": du, "quote_len": qlen, "objects": objects.len()});
        let dgram = cfg_on.icmp_error(if du { 3 } else { 11 }, if du { 1 } else { 3 }, if du { 3 } else { 0 }, body.length_field, &body.body);
        let msg = if v6 { dgram.clone() } else { dgram[20..].to_vec() };
        o.observe("length_field_values", body.length_field.to_string());
        // ---- packet views
        match split_via_views(v6, du, &msg) {
            Err(e) => {
                o.violate("views_never_panic", format!("{site}|{mode:?}"), e, replay.clone());
                continue;
            }
            Ok((payload, extension)) => {
                let has_ext = matches!(mode, Rfc4884::Compliant | Rfc4884::Legacy);
                o.hit("original_datagram_recovered");
                let want_prefix: &[u8] = if mode == Rfc4884::Legacy { &quote[..quote.len().min(128)] } else { quote };
                let ok_payload = payload.len() >= want_prefix.len() && payload[..want_prefix.len()] == *want_prefix && payload[want_prefix.len()..].iter().all(|b| *b == 0) && payload.len() <= body.orig_field_len.max(want_prefix.len());
                // a classic message with more than 128 + 4 octets is read by the legacy convention
                let legacy_reading = mode == Rfc4884::None && quote.len() >= 132 && payload == quote[..128];
                if !ok_payload && !legacy_reading {
                    o.violate(
                        "original_datagram_recovered",
                        format!("{site}|{mode:?}"),
                        format!("quote of {qlen} octets (original datagram field {} octets, length field {}): payload() returned {} octets, first difference at {:?}", body.orig_field_len, body.length_field, payload.len(), payload.iter().zip(want_prefix).position(|(a, b)| a != b)),
                        replay.clone(),
                    );
                }
                if has_ext {
                    o.hit("extension_located");
                    if extension.as_deref() != Some(&ext[..]) {
                        o.violate("extension_located", format!("{site}|{mode:?}"), format!("quote {qlen}, length field {}: extension() returned {:?} octets, encoded {}", body.length_field, extension.as_ref().map(Vec::len), ext.len()), replay.clone());
                    } else {
                        // ---- objects, labels, EXP / S / TTL in order
                        o.hit("objects_decoded_in_order");
                        match decode_objects(&ext) {
                            Err(e) => {
                                o.violate("objects_decoded_in_order", format!("{site}|error"), e, replay.clone());
                                continue;
                            }
                            Ok(got) => {
                                let mut trustworthy = got == objects;
                                if got != objects {
                                    o.violate("objects_decoded_in_order", site.clone(), format!("decoded {got:?} != encoded {objects:?}"), replay.clone());
                                }
                                for ob in objects.iter().filter(|x| x.class_num == 1) {
                                    o.hit("mpls_members_decoded");
                                    let want: Vec<MplsEntry> = ob.payload.chunks(4).map(|b| {
                                        let w = u32::from_be_bytes([b[0], b[1], b[2], b[3]]);
                                        MplsEntry { label: w >> 12, exp: ((w >> 9) & 7) as u8, s: ((w >> 8) & 1) as u8, ttl: (w & 0xff) as u8 }
                                    }).collect();
                                    // iteration stops after the bottom-of-stack entry
                                    let upto = want.iter().position(|m| m.s == 1).map_or(want.len(), |p| p + 1);
                                    match decode_mpls(&ob.payload) {
                                        Ok(g) if g == want[..upto] => {}
                                        other => {
                                            trustworthy = false;
                                            o.violate("mpls_members_decoded", site.clone(), format!("{other:?} != {:?}", &want[..upto]), replay.clone());
                                        }
                                    }
                                }
                                // the iterators were walked with a cap above; the code below
                                // (Extensions::try_from, the receive path) walks them without
                                // one, so it is not entered with iterators that already misbehave
                                if !trustworthy {
                                    continue;
                                }
                            }
                        }
                        o.hit("extensions_struct_matches");
                        match guarded(|| Extensions::try_from(&ext[..])) {
                            Ok(Ok(e)) => {
                                if !ext_matches(&objects, Some(&e)) {
                                    o.violate("extensions_struct_matches", site.clone(), format!("{e:?} != encoded {objects:?}"), replay.clone());
                                }
                            }
                            Ok(Err(e)) => o.violate("extensions_struct_matches", format!("{site}|error"), format!("Extensions::try_from failed on a well-formed structure: {e}"), replay.clone()),
                            Err(p) => o.violate("views_never_panic", format!("{site}|try_from|{}", p.site()), format!("panic at {}:{}: {}", p.file, p.line, p.message), replay.clone()),
                        }
                    }
                } else {
                    o.hit("no_extension_when_none_sent");
                    // a message without RFC 4884 structure but longer than 128 + 4 octets is
                    // indistinguishable from the legacy convention: only judge shorter ones
                    if (mode == Rfc4884::LengthOnly || quote.len() < 132) && extension.is_some() {
                        o.violate("no_extension_when_none_sent", format!("{site}|{mode:?}"), format!("quote {qlen}, length field {}: an extension of {:?} octets was reported", body.length_field, extension.map(|e| e.len())), replay.clone());
                    }
                }
            }
        }
        // ---- end to end through both channels (receive buffer is 1024 octets)
        let now = world.now();
        world.inner.lock().unwrap().inject(now, v6, dgram.clone(), src, PktClass::Noise);
        for (name, ch, enabled) in [("ext-on", &mut ch_on, true), ("ext-off", &mut ch_off, false)] {
            match guarded(|| ch.recv_probe()) {
                Err(p) => {
                    o.violate("views_never_panic", format!("{site}|{name}|{}", p.site()), format!("recv_probe panic at {}:{}: {}", p.file, p.line, p.message), replay.clone());
                }
                Ok(Err(e)) => {
                    o.hit("receive_path_accepts_well_formed_message");
                    o.violate("receive_path_accepts_well_formed_message", format!("{site}|{name}|{mode:?}"), format!("recv_probe returned Err({e}) for a well-formed message (quote {qlen}, {} objects)", objects.len()), replay.clone());
                }
                Ok(Ok(resp)) => {
                    o.hit("receive_path_accepts_well_formed_message");
                    let exts = match &resp {
                        Some(Response::TimeExceeded(_, _, e) | Response::DestinationUnreachable(_, _, e)) => Some(e.clone()),
                        _ => None,
                    };
                    match exts {
                        None => o.violate("receive_path_accepts_well_formed_message", format!("{site}|{name}|none"), format!("recv_probe returned {resp:?} for a well-formed message (quote {qlen})"), replay.clone()),
                        Some(e) => {
                            let has_ext = matches!(mode, Rfc4884::Compliant | Rfc4884::Legacy) && dgram.len() <= 1024;
                            if enabled && has_ext {
                                o.hit("extensions_reported_by_receive_path");
                                if !ext_matches(&objects, e.as_ref()) {
                                    o.violate("extensions_reported_by_receive_path", format!("{site}|{mode:?}"), format!("{e:?} != encoded {objects:?} (quote {qlen}, length field {})", body.length_field), replay.clone());
                                }
                            }
                            if !enabled && e.is_some() {
                                o.violate("extensions_reported_by_receive_path", format!("{site}|disabled"), "extensions reported although parsing is disabled".to_string(), replay.clone());
                            }
                        }
                    }
                }
            }
        }
        // ---- corruptions of the same message: slices inside, no overlap, termination, no panic
        let mut c = msg.clone();
        for _ in 0..r.range(1, 3) {
            let k = r.below(c.len() as u64) as usize;
            c[k] = r.below(256) as u8;
        }
        if r.chance(1, 3) {
            let k = r.below(c.len() as u64 + 1) as usize;
            c.truncate(k);
        }
        o.hit("corrupted_structures_are_safe");
        for (ty, p) in exercise_views(&c) {
            if let Some(p) = p {
                o.violate("corrupted_structures_are_safe", format!("{ty}|{}", if p.in_repo() { p.site() } else { p.message.chars().take(40).collect() }), format!("{ty}: panic at {}:{}: {}", p.file, p.line, p.message), json!({"buffer_hex": wire::hex(&c)}));
            }
        }
        if i < 1 && j < 2 {
            o.sample = Some(json!({"family": if v6 { "v6" } else { "v4" }, "mode": format!("{mode:?}"), "quote_len": qlen, "length_field": body.length_field, "objects": objects.iter().map(|x| json!({"class": x.class_num, "ctype": x.c_type, "len": x.payload.len()})).collect::<Vec<_>>(), "message_hex_prefix": wire::hex(&msg[..msg.len().min(40)])}));
        }
    }
    drop(ch_on);
    drop(ch_off);
    drop(guard);
    o.count("messages", n as u64);
    o.nontrivial = Some(format!("{site}#{j}"));
    o
}

fn cfg_chan(c: &Cfg) -> trippy_core::verif::ChannelConfig {
    use trippy_core::verif::ChannelConfig;
    use trippy_core::{IcmpExtensionParseMode, PacketSize, PayloadPattern, PrivilegeMode, Sequence, TypeOfService};
    ChannelConfig {
        privilege_mode: PrivilegeMode::Privileged,
        protocol: c.protocol,
        source_addr: if c.v6 { scen::host_v6().into() } else { scen::HOST_V4.into() },
        target_addr: if c.v6 { scen::target_v6().into() } else { scen::TARGET_V4.into() },
        packet_size: PacketSize(if c.v6 { 104 } else { 84 }),
        payload_pattern: PayloadPattern(0),
        initial_sequence: Sequence(33434),
        tos: TypeOfService(0),
        icmp_extension_parse_mode: if c.ext { IcmpExtensionParseMode::Enabled } else { IcmpExtensionParseMode::Disabled },
        read_timeout: scen::ms(1),
        tcp_connect_timeout: scen::ms(10),
    }
}

/// What a hop reports (`Hop::extensions()`, which the table columns, the hop details and the
/// reports show) is exactly what the latest response from that distance carried: the same routers
/// answer with extension objects for a few rounds, then without any, then with them again.
fn state_stage(seed: u64, i: usize, cells: &[crate::scen::Cell]) -> Outcome {
    use crate::world::{Quote};
    use trippy_core::ProbeStatus;
    let mut o = Outcome::default();
    let mut r = Prng::new(seed ^ (i as u64).wrapping_mul(0x9E37_79B9_7F4A_7C15) ^ 0x57A7E14);
    let cell = cells[i % cells.len()];
    let mut tcfg = cell.trace_cfg();
    let round_ms = 40u64;
    tcfg.min_round = crate::scen::ms(round_ms);
    tcfg.max_round = crate::scen::ms(round_ms);
    tcfg.grace = crate::scen::ms(1);
    tcfg.read_timeout = crate::scen::ms(1);
    tcfg.tcp_connect_timeout = crate::scen::ms(round_ms);
    tcfg.max_rounds = Some(12);
    tcfg.max_ttl = 10;
    let d = r.range(2, 7) as usize;
    let mk = |labelled: bool, r: &mut Prng| {
        let hops: Vec<HopSpec> = (0..d - 1)
            .map(|h| {
                let mut s = HopSpec::simple(crate::scen::hop_addr(cell.v6, h, 0), 300_000 + 20_000 * h as u64);
                s.quote = Quote::Full;
                if labelled {
                    s.rfc4884 = Rfc4884::Compliant;
                    s.ext = crate::scen::random_ext(r);
                }
                s
            })
            .collect();
        let mut t = HopSpec::simple(tcfg.target, 900_000);
        t.quote = Quote::Full;
        Topology { hops, target: t, tcp: TcpMode::Rst }
    };
    let first_labelled = r.chance(1, 2);
    let mut wcfg = crate::scen::world_cfg(mk(first_labelled, &mut r), seed ^ i as u64);
    let (s1, s2) = (r.range(2, 4), r.range(6, 9));
    wcfg.reroutes.push((s1 * round_ms * 1_000_000 + 13_000_000, mk(!first_labelled, &mut r)));
    wcfg.reroutes.push((s2 * round_ms * 1_000_000 + 13_000_000, mk(first_labelled, &mut r)));
    let site = cell.name();
    let replay = crate::e2e::replay_of("C14", seed, i, &tcfg, &wcfg.topo);
    let Some((_world, run)) = crate::e2e::run_guarded(&wcfg, &tcfg, true, |_| {}, &mut o, &site, &replay, &format!("state scenario {i}")) else {
        return o;
    };
    let (mut with, mut without) = (0u64, 0u64);
    for round in &run.rounds {
        let Some(snap) = &round.snapshot else { continue };
        for p in &round.probes {
            let ProbeStatus::Complete(c) = p else { continue };
            let Some(hop) = snap.hops().iter().find(|h| h.ttl() == c.ttl.0) else { continue };
            o.hit("hop_reports_the_extensions_of_the_latest_response");
            if c.extensions.is_some() {
                with += 1;
            } else {
                without += 1;
            }
            if hop.extensions() != c.extensions.as_ref() {
                o.violate(
                    "hop_reports_the_extensions_of_the_latest_response",
                    format!("{site}|{}", if c.extensions.is_some() { "labels-missing" } else { "stale-labels" }),
                    format!("round {} ttl {}: the response carried {:?}, the hop reports {:?}", round.index, c.ttl.0, c.extensions, hop.extensions()),
                    replay.clone(),
                );
                return o;
            }
        }
    }
    o.count("state_stage_responses_with_extensions", with);
    o.count("state_stage_responses_without_extensions", without);
    if with > 0 && without > 0 {
        o.nontrivial = Some(format!("state|{site}|{d}"));
    }
    o
}

pub fn run(tier: Tier, seed: u64, only: Option<usize>) -> i32 {
    let mut rep = Report::new("C14", "exploration", tier, seed);
    rep.rule = "state stage: the real tracer over routers that attach extension objects for some rounds, stop, and start again (two route changes in 12 rounds): after every round Hop::extensions() of the snapshot equals what the response of that round carried; message = ICMP time exceeded or destination unreachable (ICMPv4 and ICMPv6) built by the independent RFC 4884 / 4950 encoder: original datagram = a valid probe quoted to 28/48..1020/1232 octets, layout in {compliant (zero padded to >= 128 octets and a word boundary, length field set), legacy (exactly 128 octets, length field 0), length-only, none}, 0..8 extension objects (MPLS stacks of 0..16 entries with arbitrary label / EXP / TTL, the bottom-of-stack bit on the last entry or (one in four) on none, unknown classes with 0..32 octets); each message is decoded by the four error views, the object / label-stack iterators, Extensions::try_from and the full receive path of two real channels (extension parsing on and off, 1024 octet receive buffer); then 1..3 byte corruptions and truncations of the same message go through every view (slices inside the message, no overlap, capped iteration, no panic); the set of RFC 4884 length field values exercised is listed; end to end: the real tracer over 254-hop paths whose routers and target attach extension objects in every layout (the C02 scenario runner restricted to the cells with extension parsing on): ProbeComplete.extensions must carry what was encoded; distinct by (family, protocol, shard)".into();
    rep.assumptions = vec![
        "a message without RFC 4884 structure whose original datagram field is longer than 132 octets cannot be told from the legacy 128-octet convention (RFC 4884 5.5 relies on the extension checksum, which trippy does not verify): the 'no extension reported' clause abstains there".into(),
        "messages longer than the 1024 octet receive buffer are truncated by the socket: extension equality is only judged when the whole message fits".into(),
    ];
    rep.required_clauses = vec![
        "original_datagram_recovered",
        "extension_located",
        "objects_decoded_in_order",
        "mpls_members_decoded",
        "extensions_struct_matches",
        "extensions_reported_by_receive_path",
        "receive_path_accepts_well_formed_message",
        "corrupted_structures_are_safe",
    ];
    let n = tier.pick(16, 64);
    match only {
        Some(i) => {
            let o = job(seed, i, tier);
            for v in o.violations.iter().take(10) {
                println!("{}: {}", v.signature(), v.detail);
            }
            rep.merge(o);
        }
        None => {
            rep.run_parallel(n, |i| job(seed, i, tier));
            if !rep.violations.is_empty() {
                // the end-to-end stages run whole tracers over the same parsers, uncapped: with
                // object / label iterators that do not decode (or do not terminate) they would
                // add nothing but the risk of a run that never ends
                return rep.finish();
            }
            // end to end: the real tracer (strategy and state included) over long paths whose
            // routers and target attach extension objects, extension parsing enabled; what was
            // encoded must arrive in ProbeComplete.extensions (the C02 scenario runner, restricted
            // to the cells with extension parsing on)
            let cells: Vec<crate::scen::Cell> = crate::scen::all_cells(false).into_iter().filter(|c| c.ext).collect();
            let m = tier.pick(cells.len(), cells.len() * 4);
            rep.run_parallel(m, |i| {
                let mut o = crate::props::c02::run_scenario(seed ^ 0xC14, i, &cells, Tier::Quick);
                o.nontrivial = o.nontrivial.map(|x| format!("e2e|{x}"));
                o.sample = None;
                o
            });
            // ... and in the accumulated state: routers that attach labels for some rounds and
            // stop (MPLS ttl propagation switched off and on again)
            rep.run_parallel(tier.pick(48, 480), |i| state_stage(seed, i, &cells));
        }
    }
    rep.finish()
}
