//! C09 - termination, round count and failure semantics (fault enumeration).
use crate::e2e::{check_outcomes, is_addr_in_use, is_probe_failed_errno, E2eOpts};
use crate::framework::{guarded, Outcome, Report, Tier};
use crate::prng::Prng;
use crate::scen::{self, ms, world_cfg, Cell};
use crate::sim::{run_tracer, RunOpts, RunResult, TraceCfg};
use crate::truth::analyse;
use crate::world::{Fault, HopSpec, Op, Quote, TcpMode, Topology, World, WorldCfg};
use serde_json::json;
use std::sync::Arc;
use trippy_core::{MultipathStrategy, ProbeStatus, Protocol};

#[derive(Debug, Clone, Copy, PartialEq, Eq)]
enum Class {
    /// The probe is marked failed, tracing continues.
    Transient,
    /// The probe is re-issued under the next sequence, the slot is skipped.
    Reissue,
    /// The error is swallowed (no response this iteration).
    Ignored,
    /// The run ends with this error.
    Fatal,
}

fn classify(op: Op, errno: i32, tcfg: &TraceCfg) -> Class {
    let raw = tcfg.privilege == trippy_core::PrivilegeMode::Privileged;
    let v6 = tcfg.target.is_ipv6();
    if is_addr_in_use(tcfg.protocol, op, errno, raw) {
        return Class::Reissue;
    }
    if is_probe_failed_errno(tcfg.protocol, v6, raw, op, errno) {
        return Class::Transient;
    }
    match (op, errno) {
        (Op::Read | Op::RecvFrom, libc::EAGAIN) => Class::Ignored,
        (Op::IsWritable, _) => Class::Ignored,
        _ => Class::Fatal,
    }
}

fn errnos_for(op: Op) -> &'static [i32] {
    match op {
        Op::NewSocket => &[libc::EMFILE, libc::EPERM],
        Op::Bind => &[libc::EADDRINUSE, libc::EADDRNOTAVAIL, libc::EACCES],
        Op::SetTos | Op::SetTtl | Op::SetHops => &[libc::EINVAL],
        Op::Connect => &[libc::EADDRINUSE, libc::ENETUNREACH, libc::EHOSTUNREACH, libc::ECONNREFUSED],
        Op::SendTo => &[libc::EHOSTUNREACH, libc::ENETUNREACH, libc::EINVAL, libc::EPERM, libc::ENOBUFS, libc::EMSGSIZE],
        Op::IsReadable => &[libc::EBADF],
        Op::IsWritable => &[libc::EBADF],
        Op::Read | Op::RecvFrom => &[libc::EAGAIN, libc::EIO, libc::ECONNREFUSED],
        Op::Shutdown | Op::PeerAddr => &[libc::ENOTCONN],
        Op::TakeError => &[libc::EBADF],
    }
}

struct Base {
    cell: Cell,
    tcfg: TraceCfg,
    wcfg: WorldCfg,
    rounds: usize,
    /// The network also returns datagrams that cannot be parsed (truncated quotations, ICMP
    /// messages shorter than their header, mutated and random bytes).
    malformed: bool,
}

fn base_config(seed: u64, k: usize, big: bool) -> Base {
    let mut r = Prng::new(seed ^ (k as u64).wrapping_mul(0x9E37_79B9_7F4A_7C15) ^ 0xC09);
    let protocol = [Protocol::Icmp, Protocol::Udp, Protocol::Tcp][k % 3];
    let v6 = (k / 3) % 2 == 1;
    let unprivileged = (k / 6) % 2 == 1 && protocol != Protocol::Icmp;
    let cell = Cell {
        protocol,
        v6,
        strategy: MultipathStrategy::Classic,
        ports: match protocol {
            Protocol::Icmp => 0,
            Protocol::Udp => 1,
            // TCP: fixed destination port (the default) and fixed source port
            Protocol::Tcp => {
                if ((k / 3) % 2 == 1) != ((k / 6) % 2 == 1) {
                    1
                } else {
                    2
                }
            }
        },
        unprivileged,
        ext: false,
    };
    let mut tcfg = cell.trace_cfg();
    let rounds = if big { r.range(2, 100) as usize } else { r.range(1, 3) as usize };
    tcfg.max_rounds = Some(rounds);
    tcfg.min_round = ms(20);
    tcfg.max_round = ms(20);
    tcfg.grace = ms(1);
    tcfg.read_timeout = ms(5);
    tcfg.tcp_connect_timeout = ms(20);
    let dist = if big { r.range(1, 12) as usize } else { r.range(1, 3) as usize };
    tcfg.max_ttl = if big { r.range(1, 16) as u8 } else { r.range(1, 4) as u8 };
    let hops: Vec<HopSpec> = (0..dist - 1)
        .map(|h| {
            let mut s = HopSpec::simple(scen::hop_addr(v6, h, 0), r.range(100_000, 4_000_000));
            s.quote = Quote::Full;
            s
        })
        .collect();
    let mut t = HopSpec::simple(tcfg.target, r.range(100_000, 6_000_000));
    t.quote = Quote::Full;
    let topo = Topology { hops, target: t, tcp: *r.pick(&[TcpMode::SynAck, TcpMode::Rst]) };
    let wcfg = world_cfg(topo, seed ^ k as u64);
    Base { cell, tcfg, wcfg, rounds, malformed: false }
}

fn run_once(b: &Base, faults: &[(usize, i32)]) -> Result<(Arc<World>, RunResult), crate::framework::Panic> {
    run_once_ops(b, faults, &[])
}

fn run_once_ops(b: &Base, faults: &[(usize, i32)], op_faults: &[(Op, usize, i32)]) -> Result<(Arc<World>, RunResult), crate::framework::Panic> {
    let mut wcfg = b.wcfg.clone();
    for (call, errno) in faults {
        wcfg.faults.at_call.insert(*call, Fault { errno: *errno });
    }
    for (op, n, errno) in op_faults {
        wcfg.faults.at_op.insert((*op, *n), Fault { errno: *errno });
    }
    guarded(|| {
        let world = World::new(wcfg);
        if b.malformed {
            let v6 = b.cell.v6;
            let cfg = crate::props::c04::Cfg { protocol: b.cell.protocol, v6, ext: b.cell.ext };
            let router = scen::hop_addr(v6, 0, 0);
            world.inner.lock().unwrap().inject_on_send.push(Box::new(move |wp, r| {
                let mut out = Vec::new();
                if !r.chance(1, 3) {
                    return out;
                }
                let delay = r.range(1_000, 15_000_000);
                match r.below(3) {
                    0 => {
                        // the probe quoted by a router which cuts the quotation short
                        let q = crate::forge::truncate_quote(&wp.bytes, v6);
                        let n = r.below(q.len() as u64 + 1) as usize;
                        let (bytes, src) = crate::forge::icmp_error(v6, router, scen::HOST_V4, scen::host_v6(), r.chance(1, 2), &q[..n], 0);
                        out.push(crate::forge::injected(delay, v6, bytes, src, crate::world::PktClass::Noise));
                    }
                    1 => {
                        // an ICMP message shorter than the ICMP header
                        let n = r.below(8) as usize;
                        let icmp = r.bytes(n);
                        let bytes = if v6 { icmp } else { crate::wire::wrap_ip4(std::net::Ipv4Addr::new(10, 99, 0, 1), scen::HOST_V4, crate::wire::PROTO_ICMP, 60, 0, 0x4445, &[], &icmp) };
                        out.push(crate::forge::injected(delay, v6, bytes, router, crate::world::PktClass::Noise));
                    }
                    _ => {
                        let mut pool = Vec::new();
                        crate::props::c04::random_datagrams(&cfg, r, 1, &mut pool);
                        for (_, d) in pool {
                            out.push(crate::forge::injected(delay, v6, d, router, crate::world::PktClass::Noise));
                        }
                    }
                }
                out
            }));
        }
        let tracer = b.tcfg.builder().build().expect("builder");
        let r = run_tracer(&world, 0, &tracer, &RunOpts { snapshots: false });
        (world, r)
    })
}

fn os_text(errno: i32) -> String {
    std::io::Error::from_raw_os_error(errno).to_string()
}

/// Judge one faulted run.
fn judge(b: &Base, faults: &[(usize, i32)], world: &Arc<World>, run: &RunResult, o: &mut Outcome, replay: &serde_json::Value) {
    let w = world.inner.lock().unwrap();
    let site = b.cell.name();
    if w.deadline_hit {
        o.hit("run_ends_within_virtual_time_budget");
        o.violate(
            "run_ends_within_virtual_time_budget",
            site.clone(),
            format!("the tracer was still running after three times the virtual time its round limit allows ({} rounds published of {}); it was stopped by failing its socket calls", run.rounds.len(), b.rounds),
            replay.clone(),
        );
        return;
    }
    o.hit("run_ends_within_virtual_time_budget");
    // which injected faults were actually reached, on which call, in which phase?
    let setup_end = w
        .log
        .iter()
        .position(|e| matches!(&e.ev, crate::world::Ev::NewSocket { kind: trippy_core::verif::VerifSocketKind::RecvV4 { .. } | trippy_core::verif::VerifSocketKind::RecvV6 { .. } }))
        .unwrap_or(usize::MAX);
    // every failed call in the log other than the natural EINPROGRESS of connect was injected
    // (trippy only reads after the socket was reported readable, so EAGAIN never occurs naturally)
    let _ = faults;
    let reached: Vec<(usize, Op, i32, Class)> = w
        .log
        .iter()
        .filter_map(|le| le.err.filter(|e| *e != libc::EINPROGRESS).map(|e| (le.idx, le.op, e)))
        .map(|(c, op, e)| (c, op, e, if c <= setup_end { Class::Fatal } else { classify(op, e, &b.tcfg) }))
        .collect();
    let first_fatal = reached.iter().find(|f| f.3 == Class::Fatal);
    let fsite = |f: &(usize, Op, i32, Class)| format!("{site}|{:?}:{}{}", f.1, f.2, if f.0 <= setup_end { ":setup" } else { "" });
    // callbacks are numbered 0.. in order
    for (k, r) in run.rounds.iter().enumerate() {
        for p in &r.probes {
            let rid = match p {
                ProbeStatus::Awaited(a) => Some(a.round.0),
                ProbeStatus::Complete(c) => Some(c.round.0),
                ProbeStatus::Failed(f) => Some(f.round.0),
                _ => None,
            };
            if rid.is_some_and(|x| x != k) {
                o.violate("rounds_numbered_in_order", site.clone(), format!("callback {k} carries a probe of round {rid:?}"), replay.clone());
            }
        }
    }
    match first_fatal {
        None => {
            o.hit("no_fatal_fault_means_ok_and_n_rounds");
            if run.result.is_err() || run.rounds.len() != b.rounds {
                let f = reached.first().map_or_else(|| site.clone(), |f| fsite(f));
                o.violate(
                    "no_fatal_fault_means_ok_and_n_rounds",
                    f,
                    format!("faults {faults:?} (none fatal): result {:?}, {} rounds published, expected Ok and {}", run.result, run.rounds.len(), b.rounds),
                    replay.clone(),
                );
            }
            if run.final_state.error().is_some() {
                o.violate("no_error_in_snapshot_without_failure", site.clone(), format!("snapshot error {:?}", run.final_state.error()), replay.clone());
            }
        }
        Some(f) => {
            o.hit("fatal_fault_ends_run_with_that_error");
            let text = os_text(f.2);
            match &run.result {
                Ok(()) => o.violate("fatal_fault_ends_run_with_that_error", fsite(f), format!("fault {f:?} is fatal but the run returned Ok with {} rounds", run.rounds.len()), replay.clone()),
                Err(e) => {
                    // an address-in-use error is reported as `address <addr> in use`
                    if !(e.contains(&text) || (f.2 == libc::EADDRINUSE && e.contains("in use"))) {
                        o.violate("fatal_fault_ends_run_with_that_error", fsite(f), format!("fault {f:?}: run error {e:?} does not carry the injected error {text:?}"), replay.clone());
                    }
                    o.hit("error_visible_in_snapshot");
                    if run.final_state.error() != Some(e.as_str()) {
                        o.violate("error_visible_in_snapshot", fsite(f), format!("run error {e:?} but snapshot error {:?}", run.final_state.error()), replay.clone());
                    }
                }
            }
            // the published callbacks form a prefix: no round may be published after the fault
            if let (fi, Some(last)) = (f.0, run.rounds.last()) {
                if last.log_len > fi + 1 {
                    o.violate("rounds_form_a_prefix", fsite(f), format!("a round was published after the fatal fault at log index {fi}"), replay.clone());
                }
            }
            if run.rounds.len() > b.rounds {
                o.violate("rounds_form_a_prefix", fsite(f), format!("{} rounds published, limit {}", run.rounds.len(), b.rounds), replay.clone());
            }
        }
    }
    // slot states (failed / skipped / awaited / complete) of everything that was published
    let a = analyse(&w, 0, run);
    check_outcomes(&w, &a, run, &b.tcfg, o, &site, replay, &E2eOpts { check_ext: false });
    for f in &reached {
        o.observe("faults_reached", format!("{:?}:{}:{:?}{}", f.1, f.2, f.3, if f.0 <= setup_end { ":setup" } else { "" }));
    }
}

/// Exhaustive enumeration for one base configuration: every call index x every errno of its op.
pub fn enumerate_base(seed: u64, k: usize, pairs: bool) -> Outcome {
    let mut o = Outcome::default();
    let b = base_config(seed, k, false);
    let site = b.cell.name();
    let replay0 = json!({"how": format!("vcheck C09 --seed {seed} --only {k}"), "scenario": k, "cell": site, "config": format!("{:?}", b.tcfg), "topology": scen::describe_topology(&b.wcfg.topo)});
    // baseline: which op is at which call index
    let (world, run) = match run_once(&b, &[]) {
        Ok(x) => x,
        Err(p) => {
            if p.in_repo() {
                o.violate("no_panic", format!("{site}|{}", p.site()), format!("baseline panic {}:{} {}", p.file, p.line, p.message), replay0);
            } else {
                o.harness_error = Some(format!("baseline panic {}:{} {}", p.file, p.line, p.message));
            }
            return o;
        }
    };
    judge(&b, &[], &world, &run, &mut o, &replay0);
    let ops: Vec<Op> = {
        let w = world.inner.lock().unwrap();
        // call indices are assigned in log order for the ops that can be faulted
        w.log.iter().filter(|e| !matches!(e.ev, crate::world::Ev::Other(_))).map(|e| e.op).collect()
    };
    let n_calls = world.inner.lock().unwrap().calls();
    if ops.len() != n_calls {
        o.harness_error = Some(format!("call index bookkeeping mismatch: {} log entries vs {} calls", ops.len(), n_calls));
        return o;
    }
    let mut runs = 1u64;
    for (idx, op) in ops.iter().enumerate() {
        for &errno in errnos_for(*op) {
            let replay = json!({"how": format!("vcheck C09 --seed {seed} --only {k}"), "scenario": k, "cell": site, "fault": {"call": idx, "op": format!("{op:?}"), "errno": errno, "text": os_text(errno)}, "config": format!("{:?}", b.tcfg)});
            match run_once(&b, &[(idx, errno)]) {
                Ok((world, run)) => judge(&b, &[(idx, errno)], &world, &run, &mut o, &replay),
                Err(p) if p.in_repo() => o.violate("no_panic", format!("{site}|{op:?}:{errno}|{}", p.site()), format!("fault at call {idx}: panic {}:{} {}", p.file, p.line, p.message), replay.clone()),
                Err(p) => o.harness_error = Some(format!("harness panic {}:{} {}", p.file, p.line, p.message)),
            }
            runs += 1;
            if pairs {
                // a second, later fault (only non fatal first faults let the run reach it)
                if classify(*op, errno, &b.tcfg) != Class::Fatal {
                    for idx2 in (idx + 1..ops.len()).step_by(3) {
                        let e2 = errnos_for(ops[idx2])[(idx + idx2) % errnos_for(ops[idx2]).len()];
                        match run_once(&b, &[(idx, errno), (idx2, e2)]) {
                            Ok((world, run)) => judge(&b, &[(idx, errno), (idx2, e2)], &world, &run, &mut o, &replay),
                            Err(p) if p.in_repo() => o.violate("no_panic", format!("{site}|pair|{}", p.site()), format!("faults at {idx},{idx2}: panic {}:{} {}", p.file, p.line, p.message), replay.clone()),
                            Err(p) => o.harness_error = Some(format!("harness panic {}:{} {}", p.file, p.line, p.message)),
                        }
                        runs += 1;
                    }
                }
            }
        }
    }
    // runs of 2 and 3 consecutive failures of the same kind of call (the re-issued / next probe
    // fails again), which a single-fault sweep cannot produce
    for op in [Op::Bind, Op::Connect, Op::SendTo] {
        let occurrences = ops.iter().filter(|o| **o == op).count();
        for &errno in errnos_for(op) {
            for n in 0..occurrences {
                for len in [2usize, 3] {
                    let fs: Vec<(Op, usize, i32)> = (0..len).map(|j| (op, n + j, errno)).collect();
                    let replay = json!({"how": format!("vcheck C09 --seed {seed} --only {k}"), "scenario": k, "cell": site, "consecutive_faults": {"op": format!("{op:?}"), "first_occurrence": n, "count": len, "errno": errno}, "config": format!("{:?}", b.tcfg)});
                    match run_once_ops(&b, &[], &fs) {
                        Ok((world, run)) => {
                            judge(&b, &[(0, errno)], &world, &run, &mut o, &replay);
                            o.count("consecutive_fault_runs", 1);
                        }
                        Err(p) if p.in_repo() => o.violate("no_panic", format!("{site}|{op:?}:{errno}x{len}|{}", p.site()), format!("panic {}:{} {}", p.file, p.line, p.message), replay.clone()),
                        Err(p) => o.harness_error = Some(format!("harness panic {}:{} {}", p.file, p.line, p.message)),
                    }
                    runs += 1;
                }
            }
        }
    }
    // an address-in-use failure (the probe is re-issued, its first slot skipped) followed in the
    // same round by a transient failure of the re-issued attempt itself or of the next probe:
    // the slot bookkeeping after a skipped sequence number
    for (op, transient) in [(Op::Bind, libc::EADDRNOTAVAIL), (Op::Connect, libc::ENETUNREACH)] {
        if classify(op, libc::EADDRINUSE, &b.tcfg) != Class::Reissue || classify(op, transient, &b.tcfg) != Class::Transient {
            continue;
        }
        let occurrences = ops.iter().filter(|o| **o == op).count();
        for n in 0..occurrences {
            for gap in [1usize, 2, 3] {
                let fs = vec![(op, n, libc::EADDRINUSE), (op, n + gap, transient)];
                let replay = json!({"how": format!("vcheck C09 --seed {seed} --only {k}"), "scenario": k, "cell": site, "faults": {"op": format!("{op:?}"), "occurrence": n, "errno": libc::EADDRINUSE, "then_occurrence": n + gap, "then_errno": transient}, "config": format!("{:?}", b.tcfg)});
                match run_once_ops(&b, &[], &fs) {
                    Ok((world, run)) => {
                        judge(&b, &[(0, libc::EADDRINUSE)], &world, &run, &mut o, &replay);
                        o.count("reissue_then_transient_runs", 1);
                    }
                    Err(p) if p.in_repo() => o.violate("no_panic", format!("{site}|{op:?}:reissue-then-transient|{}", p.site()), format!("panic {}:{} {}", p.file, p.line, p.message), replay.clone()),
                    Err(p) => o.harness_error = Some(format!("harness panic {}:{} {}", p.file, p.line, p.message)),
                }
                runs += 1;
            }
        }
    }
    o.count("faulted_runs", runs);
    o.count("socket_calls_in_baseline", n_calls as u64);
    o.nontrivial = Some(format!("{site}#{}", k));
    o.sample = Some(json!({"base": k, "cell": site, "rounds": b.rounds, "calls": n_calls, "ops": ops.iter().take(40).map(|o| format!("{o:?}")).collect::<Vec<_>>()}));
    o
}

/// Random fault sequences on larger configurations, plus silent / flooding networks.
pub fn random_faults(seed: u64, k: usize) -> Outcome {
    let mut o = Outcome::default();
    let mut b = base_config(seed ^ 0xB16, k, true);
    let mut r = Prng::new(seed ^ (k as u64) << 20 ^ 0xFA17);
    let site = b.cell.name();
    match r.below(7) {
        6 if b.cell.protocol == Protocol::Tcp => {
            // TCP over a network that withholds everything, with a connect timeout far longer
            // than the rounds: hundreds of connection attempts stay pending at once
            for h in &mut b.wcfg.topo.hops {
                h.behaviour = crate::world::Behaviour::Silent;
            }
            b.wcfg.topo.target.behaviour = crate::world::Behaviour::Silent;
            b.wcfg.topo.tcp = TcpMode::Silent;
            b.tcfg.max_ttl = r.range(200, 254) as u8;
            b.tcfg.max_inflight = 255;
            b.tcfg.tcp_connect_timeout = ms(10_000);
            // (one probe goes out per loop iteration, i.e. per read timeout: rounds long enough
            // for a couple of hundred of them)
            b.tcfg.read_timeout = ms(1);
            b.tcfg.min_round = ms(400);
            b.tcfg.max_round = ms(400);
            b.rounds = r.range(3, 5) as usize;
            b.tcfg.max_rounds = Some(b.rounds);
            o.count("tcp_backlog_runs", 1);
        }
        5 => {
            // a network that also returns datagrams which cannot be parsed: they answer no probe
            // and are not socket errors, the run must go on to its n rounds and return success
            b.malformed = true;
            let replay = json!({"how": format!("vcheck C09 --seed {seed} --only r{k}"), "scenario": format!("r{k}"), "cell": site, "config": format!("{:?}", b.tcfg), "network": "returns malformed datagrams"});
            match run_once(&b, &[]) {
                Ok((world, run)) => {
                    let w = world.inner.lock().unwrap();
                    let noise_read = w.log.iter().filter(|e| matches!(&e.ev, crate::world::Ev::Read { pkt: Some(p), .. } | crate::world::Ev::RecvFrom { pkt: Some(p), .. } if w.pkts[*p].class == crate::world::PktClass::Noise)).count();
                    o.count("malformed_datagrams_read_by_running_tracers", noise_read as u64);
                    if noise_read > 0 {
                        o.hit("malformed_response_does_not_end_the_run");
                        if let Err(e) = &run.result {
                            o.violate(
                                "malformed_response_does_not_end_the_run",
                                format!("{}|{}", if b.cell.v6 { "v6" } else { "v4" }, e.split(" packet, ").next().unwrap_or("").chars().take(80).collect::<String>()),
                                format!("after {} of {} rounds the run ended with {e:?}: a datagram that cannot be parsed is neither a response to a probe nor a socket error", run.rounds.len(), b.rounds),
                                replay.clone(),
                            );
                        } else if run.rounds.len() != b.rounds {
                            o.violate("malformed_response_does_not_end_the_run", format!("{site}|rounds"), format!("{} rounds published, limit {}", run.rounds.len(), b.rounds), replay.clone());
                        }
                        if w.deadline_hit {
                            o.violate("run_ends_within_virtual_time_budget", site.clone(), "still running after three times the virtual time budget".to_string(), replay.clone());
                        }
                        o.nontrivial = Some(format!("{site}#r{k}#malformed"));
                    }
                }
                Err(p) if p.in_repo() => o.violate("no_panic", format!("{site}|{}", p.site()), format!("panic {}:{} {}", p.file, p.line, p.message), replay),
                Err(p) => o.harness_error = Some(format!("harness panic {}:{} {}", p.file, p.line, p.message)),
            }
            o.count("malformed_network_runs", 1);
            return o;
        }
        4 => {
            // TCP connection attempts to the target fail with an error other than "refused"
            // (timed out, network unreachable, reset): not a response, and not fatal either
            b.wcfg.topo.tcp = TcpMode::Fails(*r.pick(&[libc::ETIMEDOUT, libc::ENETUNREACH, libc::ECONNRESET, libc::EHOSTUNREACH]));
        }
        0 => {
            // a network that withholds everything
            for h in &mut b.wcfg.topo.hops {
                h.behaviour = crate::world::Behaviour::Silent;
            }
            b.wcfg.topo.target.behaviour = crate::world::Behaviour::Silent;
            b.wcfg.topo.tcp = TcpMode::Silent;
        }
        1 => {
            // a network that floods duplicates
            for h in b.wcfg.topo.hops.iter_mut().chain(std::iter::once(&mut b.wcfg.topo.target)) {
                h.dup_pct = 100;
            }
        }
        _ => {}
    }
    let baseline = run_once(&b, &[]);
    let Ok((world, _)) = baseline else {
        if let Err(p) = baseline {
            if p.in_repo() {
                o.violate("no_panic", format!("{site}|{}", p.site()), format!("panic {}:{} {}", p.file, p.line, p.message), json!({"how": format!("vcheck C09 --seed {seed} --only r{k}"), "scenario": format!("r{k}")}));
            }
        }
        return o;
    };
    let ops: Vec<Op> = world.inner.lock().unwrap().log.iter().map(|e| e.op).collect();
    let n_faults = r.range(0, 4) as usize;
    let mut faults = Vec::new();
    for _ in 0..n_faults {
        let idx = r.below(ops.len() as u64) as usize;
        let e = *r.pick(errnos_for(ops[idx]));
        faults.push((idx, e));
    }
    faults.sort_unstable();
    faults.dedup_by_key(|f| f.0);
    let replay = json!({"how": format!("vcheck C09 --seed {seed} --only r{k}"), "scenario": format!("r{k}"), "cell": site, "faults": faults, "config": format!("{:?}", b.tcfg)});
    match run_once(&b, &faults) {
        Ok((world, run)) => {
            judge(&b, &faults, &world, &run, &mut o, &replay);
        }
        Err(p) if p.in_repo() => o.violate("no_panic", format!("{site}|{}", p.site()), format!("panic {}:{} {}", p.file, p.line, p.message), replay),
        Err(p) => o.harness_error = Some(format!("harness panic {}:{} {}", p.file, p.line, p.message)),
    }
    o.count("random_fault_runs", 1);
    o.nontrivial = Some(format!("{site}#r{k}#{faults:?}"));
    o
}

pub fn run(tier: Tier, seed: u64, only: Option<String>) -> i32 {
    let mut rep = Report::new("C09", "fault_enumeration", tier, seed);
    rep.rule = "base configuration = protocol x family x privilege with max-ttl <= 4, <= 3 rounds, path length <= 3; for each base EVERY socket call of the fault-free run (setup included) is failed once with every errno that call can plausibly return (thorough: plus a second later fault for every non-fatal first fault); then random fault sequences, silent, duplicate-flooding and malformed-datagram networks and TCP backlogs (hundreds of pending connection attempts) on larger configurations with 2..100 rounds; distinct by (base configuration); non-trivial = the base produced at least one faulted run".into();
    rep.assumptions = vec![
        "which errno kinds are 'transient' (probe marked failed) is taken from the documented mapping in net/ipv4.rs (host/net unreachable, invalid input for ICMP, address not available at bind, net unreachable at connect); everything else except EAGAIN on read and errors of the zero-timeout writability poll is fatal".into(),
        "a datagram that cannot be parsed is a response the network returns, not a socket error: one random scenario in six runs over a network that also returns truncated quotations, ICMP messages shorter than their header and mutated / random datagrams, and must still publish its n rounds and return success (clause malformed_response_does_not_end_the_run)".into(),
    ];
    rep.required_clauses = vec![
        "no_fatal_fault_means_ok_and_n_rounds",
        "fatal_fault_ends_run_with_that_error",
        "error_visible_in_snapshot",
        "skipped_iff_addr_in_use",
        "failed_iff_send_failed",
    ];
    let bases = tier.pick(12, 48);
    let randoms = tier.pick(10_000, 400_000);
    rep.exhaustive = Some(true);
    rep.extras.insert("exhaustive_scope".into(), json!("every (socket call index x errno) pair of each listed base configuration"));
    match only {
        Some(s) if s.starts_with('r') => rep.merge(random_faults(seed, s[1..].parse().unwrap_or(0))),
        Some(s) => {
            let o = enumerate_base(seed, s.parse().unwrap_or(0), tier == Tier::Thorough);
            for v in o.violations.iter().take(20) {
                println!("{}: {}", v.signature(), v.detail);
            }
            rep.merge(o);
        }
        None => rep.run_parallel(bases + randoms, |i| if i < bases { enumerate_base(seed, i, tier == Tier::Thorough) } else { random_faults(seed, i - bases) }),
    }
    rep.finish()
}
