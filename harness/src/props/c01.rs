//! C01 - every reported probe outcome matches what the network actually did.
use crate::e2e::{check_outcomes, replay_of, round_brief, E2eOpts};
use crate::framework::{Outcome, Report, Tier};
use crate::prng::Prng;
use crate::reagg::{compare_flow, RefFlow};
use crate::scen::{self, all_cells, ms, random_topology, world_cfg, Cell, TopoOpts};
use crate::sim::TraceCfg;
use crate::truth::analyse;
use crate::world::PktClass;
use serde_json::json;
use std::collections::hash_map::DefaultHasher;
use std::hash::{Hash, Hasher};
use trippy_core::{ProbeStatus, State};

pub struct Scenario {
    pub cell: Cell,
    pub tcfg: TraceCfg,
    pub wcfg: crate::world::WorldCfg,
}

/// Deterministically generate scenario `i`.
pub fn scenario(seed: u64, i: usize, cells: &[Cell], tier: Tier) -> Scenario {
    let cell = cells[i % cells.len()];
    let mut r = Prng::new(seed ^ (i as u64).wrapping_mul(0x9E37_79B9_7F4A_7C15) ^ 0xC01);
    let mut tcfg = cell.trace_cfg();
    // timing: round length, grace, read timeout
    let round_ms = *r.pick(&[50u64, 200, 1000]);
    tcfg.min_round = ms(round_ms);
    tcfg.max_round = ms(round_ms);
    tcfg.grace = ms(*r.pick(&[0u64, 10, 100]));
    tcfg.read_timeout = ms(*r.pick(&[1u64, 10]));
    tcfg.tcp_connect_timeout = ms(round_ms.min(1000));
    tcfg.max_rounds = Some(tier.pick(r.range(6, 14), r.range(10, 60)) as usize);
    // delays from well inside the round to beyond it
    let max_delay = round_ms * 1_000_000 / *r.pick(&[40u64, 8, 2, 1]);
    let topo = random_topology(&mut r, cell.v6, &TopoOpts::hostile(max_delay));
    // configuration numerics
    if r.chance(1, 3) {
        tcfg.first_ttl = r.range(1, 6) as u8;
    }
    tcfg.max_ttl = match r.below(4) {
        0 => tcfg.first_ttl.max(r.range(1, 12) as u8),
        1 => 64,
        _ => tcfg.first_ttl.max(r.range(8, 40) as u8),
    };
    tcfg.max_inflight = *r.pick(&[1u8, 2, 6, 24, 24, 64]);
    if tcfg.max_inflight <= tcfg.first_ttl.saturating_sub(1) {
        // see DESIGN section 6 (C06): nothing would ever be sent
        tcfg.max_inflight = 24.max(tcfg.first_ttl);
    }
    let min_size: u16 = if cell.v6 { 48 } else { 28 };
    tcfg.packet_size = match r.below(4) {
        0 => min_size + if cell.protocol == trippy_core::Protocol::Udp && cell.strategy == trippy_core::MultipathStrategy::Paris { 2 } else { 0 },
        1 => 1024,
        _ => r.range(u64::from(min_size) + 2, 600) as u16,
    };
    tcfg.tos = if cell.v6 { 0 } else { *r.pick(&[0u8, 0, 0x10, 0xb8, 0xff]) };
    tcfg.payload_pattern = *r.pick(&[0u8, 0x55, 0xff]);
    tcfg.initial_sequence = *r.pick(&[33434u16, 33434, 0, 1, 64_000, 64_511]);
    tcfg.trace_id = *r.pick(&[1234u16, 1, 0xffff]);
    let mut wcfg = world_cfg(topo, seed ^ i as u64);
    if cell.protocol == trippy_core::Protocol::Tcp && r.chance(1, 3) {
        wcfg.faults.bind_in_use_pct = r.range(5, 40) as u8;
    }
    // a third of the worlds are not honest: some genuine responses are accompanied by a near-miss
    // forgery (other destination / protocol / identifier) or followed by a late copy one or two
    // rounds later - "none is invented"
    if r.chance(1, 3) {
        let round = crate::sim::ns(tcfg.max_round).max(1_000_000);
        wcfg.adversary = crate::world::Adversary {
            forgeries: vec![(crate::world::Forgery::OtherDest, 4), (crate::world::Forgery::OtherProto, 4), (crate::world::Forgery::OtherTracer, 4)],
            offset_ns: (-40_000, 200_000),
            late_pct: 6,
            late_delay_ns: (round / 2, round * 2),
        };
    }
    // transient send failures (IPv4 ICMP / UDP: "host unreachable" from sendto marks just that
    // probe as failed): the failed probes must be reported and counted as such
    if crate::e2e::is_probe_failed_errno(cell.protocol, cell.v6, !cell.unprivileged, crate::world::Op::SendTo, libc::EHOSTUNREACH) && r.chance(1, 4) {
        for _ in 0..r.range(1, 6) {
            wcfg.faults.at_op.insert((crate::world::Op::SendTo, r.below(120) as usize), crate::world::Fault { errno: libc::EHOSTUNREACH });
        }
    }
    Scenario { cell, tcfg, wcfg }
}

fn topo_hash(s: &Scenario) -> u64 {
    let mut h = DefaultHasher::new();
    format!("{:?}", scen::describe_topology(&s.wcfg.topo)).hash(&mut h);
    h.finish()
}

pub fn run_scenario(seed: u64, i: usize, cells: &[Cell], tier: Tier) -> Outcome {
    let mut o = Outcome::default();
    let sc = scenario(seed, i, cells, tier);
    let replay = replay_of("C01", seed, i, &sc.tcfg, &sc.wcfg.topo);
    let site = sc.cell.name();
    let stratum = if sc.cell.is_unpriv_multipath() { "builder-only" } else { "cli+builder" };
    let res = crate::framework::guarded(|| {
        let world = crate::world::World::new(sc.wcfg.clone());
        // dishonest worlds: an echo reply naming the sequence of a UDP / TCP probe is not a
        // response to it ("none is invented")
        if !sc.wcfg.adversary.forgeries.is_empty() {
            crate::forge::install_echo_adversary(&world, &sc.tcfg, 12);
        }
        let tracer = sc.tcfg.builder().build().map_err(|e| format!("build: {e}"))?;
        let r = crate::sim::run_tracer(&world, 0, &tracer, &crate::sim::RunOpts { snapshots: true });
        Ok::<_, String>((world, r))
    });
    let (world, run) = match res {
        Err(p) if p.in_repo() => {
            o.violate("no_panic", format!("{site}|{}", p.site()), format!("panic at {}:{}: {}", p.file, p.line, p.message), replay);
            return o;
        }
        Err(p) => {
            o.harness_error = Some(format!("scenario {i}: harness panic at {}:{}: {}", p.file, p.line, p.message));
            return o;
        }
        Ok(Err(e)) => {
            o.harness_error = Some(format!("scenario {i}: {e}"));
            return o;
        }
        Ok(Ok(x)) => x,
    };
    let w = world.inner.lock().unwrap();
    if let Err(e) = &run.result {
        // without injected fatal faults the run must succeed (this is C09's clause, but a C01
        // scenario that dies early has not been observed and must not count as held)
        o.violate("run_completes", format!("{site}|{}", e.split(':').next().unwrap_or("")), format!("run failed: {e}"), replay.clone());
    }
    let a = analyse(&w, 0, &run);
    check_outcomes(&w, &a, &run, &sc.tcfg, &mut o, &site, &replay, &E2eOpts { check_ext: true });

    // per-hop totals in the snapshot taken inside the callback = sums of the published outcomes
    let mut reference = RefFlow::default();
    for round in &run.rounds {
        reference.apply(&round.probes, round.largest_ttl);
        if let Some(snap) = &round.snapshot {
            o.hit("snapshot_totals");
            let diffs = compare_flow(snap, State::default_flow_id(), &reference, sc.tcfg.max_samples);
            if let Some((f, d)) = diffs.first() {
                o.violate("snapshot_totals", format!("{site}|{f}"), format!("after round {}: {d} (+{} more)", round.index, diffs.len() - 1), replay.clone());
                break;
            }
        }
    }

    // Unprivileged UDP with Paris / Dublin (accepted by the builder, rejected by the CLI): the
    // kernel builds the datagram, so the sequence is not on the wire; every consequence (unmatched
    // or mismatched responses) is one finding per strategy and family, not one per symptom.
    if sc.cell.is_unpriv_multipath() {
        let fam = if sc.cell.v6 { "v6" } else { "v4" };
        for v in &mut o.violations {
            v.detail = format!("[{}|{}] {}", v.clause, v.site, v.detail);
            v.clause = "unprivileged_udp_multipath".into();
            v.site = format!("udp/{}/{fam}/unprivileged", sc.cell.strategy);
        }
    }

    // non-triviality: at least one complete, one awaited and one reordered or duplicate response
    let mut complete = 0u64;
    let mut awaited = 0u64;
    let mut other = 0u64;
    for r in &run.rounds {
        for p in &r.probes {
            match p {
                ProbeStatus::Complete(_) => complete += 1,
                ProbeStatus::Awaited(_) => awaited += 1,
                ProbeStatus::Failed(_) | ProbeStatus::Skipped => other += 1,
                ProbeStatus::NotSent => {}
            }
        }
    }
    let mut reordered = 0u64;
    let mut dups = 0u64;
    let mut late_rounds = 0u64;
    for rt in &a.rounds {
        let mut last: Option<usize> = None;
        let wires_in_round: std::collections::HashSet<usize> = rt.groups.iter().filter_map(|g| g.wire).collect();
        for rd in &rt.reads {
            if let Some(wid) = rd.wire {
                if !wires_in_round.contains(&wid) {
                    late_rounds += 1;
                }
                if last.is_some_and(|l| wid < l) {
                    reordered += 1;
                }
                last = Some(last.map_or(wid, |l| l.max(wid)));
            }
            if matches!(rd.class, PktClass::Genuine { copy: 1 } | PktClass::Late) {
                dups += 1;
            }
        }
    }
    o.count("probes_complete", complete);
    o.count("probes_awaited", awaited);
    o.count("probes_failed_or_skipped", other);
    o.count("responses_read_out_of_order", reordered);
    o.count("duplicate_responses_read", dups);
    o.count("responses_read_in_a_later_round", late_rounds);
    o.count("rounds_published", run.rounds.len() as u64);
    o.count("wire_packets", w.wires.len() as u64);
    o.count("socket_calls_logged", w.log.len() as u64);
    o.observe("cells", site.clone());
    o.observe("strata", stratum);
    if complete > 0 && awaited > 0 && (reordered > 0 || dups > 0) {
        let timing = format!("{}ms/{}ms", sc.tcfg.max_round.as_millis(), sc.tcfg.read_timeout.as_millis());
        o.nontrivial = Some(format!("{site}#{:016x}#{timing}", topo_hash(&sc)));
    }
    if i < 2 {
        o.sample = Some(json!({
            "scenario": i, "cell": site, "config": format!("{:?}", sc.tcfg),
            "topology": scen::describe_topology(&sc.wcfg.topo),
            "rounds": run.rounds.iter().take(2).map(round_brief).collect::<Vec<_>>(),
            "log_excerpt": w.log.iter().skip(6).take(12).map(|e| format!("t={} sock={} {:?} err={:?}", e.t, e.sock, e.ev, e.err)).collect::<Vec<_>>(),
        }));
    }
    o
}

pub fn run(tier: Tier, seed: u64, only: Option<usize>) -> i32 {
    let mut rep = Report::new("C01", "exploration", tier, seed);
    rep.rule = "one scenario = one builder-accepted configuration cell (protocol x family x strategy x port direction x privilege x extension mode) with drawn numerics (first/max ttl, inflight, packet size, tos, pattern, initial sequence, timing) run for 6..60 rounds over a seeded random topology (0..14 hops, ECMP, silent / rate limited / lossy / duplicating hops, silent targets, delays up to beyond the round length; a third of the worlds with near-miss forgeries and late copies, TCP cells with local port collisions, IPv4 ICMP / UDP cells with transient send failures); non-trivial = at least one complete, one awaited and one out-of-order or duplicate response was observed; distinct by (cell, topology hash, timing class)".into();
    rep.assumptions = vec![
        "the simulated socket layer models Linux raw / datagram / stream socket behaviour (IP_HDRINCL header fill-in, ICMP error quoting, EINPROGRESS connects)".into(),
        "virtual time: clock_gettime is interposed; every clock read ticks 1ns so timestamps identify socket calls uniquely".into(),
        "a probe is 'complete' in ground truth iff a genuine (or duplicated / delayed genuine) response to its wire packet was read by the tracer in the same round, before the round was published".into(),
        "cells the builder accepts but trippy leaves unimplemented (UDP classic / TCP with both ports fixed) are C16's subject and excluded here".into(),
    ];
    rep.required_clauses = vec![
        "slots_equal_dispatches",
        "complete_iff_genuine_response",
        "awaited_iff_no_genuine_response",
        "skipped_iff_addr_in_use",
        "snapshot_totals",
        "extensions_reported",
    ];
    let cells = all_cells(true);
    let per_cell = tier.pick(30, 600);
    let n = cells.len() * per_cell;
    rep.extras.insert("cells_total".into(), json!(cells.len()));
    match only {
        Some(i) => {
            let o = run_scenario(seed, i, &cells, tier);
            for v in &o.violations {
                println!("{}: {}", v.signature(), v.detail);
            }
            rep.merge(o);
        }
        None => rep.run_parallel(n, |i| run_scenario(seed, i, &cells, tier)),
    }
    rep.finish()
}
