//! C13 - internet checksums verify, including the Paris checksum swap.
use crate::e2e::{replay_of, run_guarded};
use crate::framework::{guarded, Outcome, Report, Tier};
use crate::oracles::check_wire;
use crate::prng::Prng;
use crate::scen::{all_cells, ms, world_cfg, Cell};
use crate::truth::analyse;
use crate::wire::{self, PROTO_ICMP6, PROTO_TCP, PROTO_UDP};
use crate::world::{Behaviour, HopSpec, TcpMode, Topology};
use serde_json::json;
use std::net::{IpAddr, Ipv4Addr, Ipv6Addr};
use trippy_core::{MultipathStrategy, Protocol};
use trippy_packet::checksum::{icmp_ipv4_checksum, icmp_ipv6_checksum, ipv4_header_checksum, tcp_ipv4_checksum, udp_ipv4_checksum, udp_ipv6_checksum};

fn content(kind: usize, len: usize, r: &mut Prng) -> Vec<u8> {
    match kind {
        0 => vec![0u8; len],
        1 => vec![0xffu8; len],
        2 => (0..len).map(|i| if i % 2 == 0 { 0xff } else { 0xfe }).collect(), // carry maximising
        3 => (0..len).map(|i| (i * 7 + 1) as u8).collect(),
        _ => r.bytes(len),
    }
}

fn codec_job(seed: u64, j: usize, tier: Tier) -> Outcome {
    let mut o = Outcome::default();
    let mut r = Prng::new(seed ^ (j as u64).wrapping_mul(0x9E37_79B9_7F4A_7C15) ^ 0xC13);
    let pairs = tier.pick(32, 256);
    // address pair `j`
    let (s4, d4) = match j % pairs {
        0 => (Ipv4Addr::new(0, 0, 0, 0), Ipv4Addr::new(0, 0, 0, 0)),
        1 => (Ipv4Addr::new(255, 255, 255, 255), Ipv4Addr::new(255, 255, 255, 255)),
        2 => (Ipv4Addr::new(192, 168, 1, 2), Ipv4Addr::new(10, 200, 0, 1)),
        _ => (Ipv4Addr::from(r.next_u32()), Ipv4Addr::from(r.next_u32())),
    };
    let (s6, d6) = match j % pairs {
        0 => (Ipv6Addr::UNSPECIFIED, Ipv6Addr::UNSPECIFIED),
        1 => (Ipv6Addr::from([0xff; 16]), Ipv6Addr::from([0xff; 16])),
        // addresses whose eight words sum to k * 0x10000 + (0x10000 - d): folding the carries once
        // carries again (n words of 0xffff and one word w with 1 <= w < n), e.g. fe80::ffff:ffff:ffff:180
        k @ 3..=8 => {
            let n = 2 + (k - 3) % 6; // 2..=7 words of 0xffff
            let mk = |r: &mut Prng| {
                let w = 1 + r.below(n as u64 - 1) as u16;
                let mut words = [0u16; 8];
                for x in words.iter_mut().take(n) {
                    *x = 0xffff;
                }
                words[n] = w;
                // any arrangement of the words has the same sum
                let rot = r.below(8) as usize;
                words.rotate_left(rot);
                Ipv6Addr::from(words)
            };
            let a = mk(&mut r);
            let b = if k % 2 == 0 { mk(&mut r) } else { "fe80::ffff:ffff:ffff:180".parse().unwrap() };
            (a, b)
        }
        _ => {
            let mut a = [0u8; 16];
            let mut b = [0u8; 16];
            r.fill(&mut a);
            r.fill(&mut b);
            (Ipv6Addr::from(a), Ipv6Addr::from(b))
        }
    };
    let replay = json!({"how": format!("vcheck C13 --seed {seed} --only {j}"), "scenario": j});
    let mut n = 0u64;
    for len in 0..=1024usize {
        for kind in 0..5usize {
            let data = content(kind, len, &mut r);
            // (name, offset of the checksum field, computed by trippy, pseudo header)
            let cases: Vec<(&'static str, usize, Result<u16, crate::framework::Panic>, Vec<u8>)> = vec![
                ("ipv4_header_checksum", 10, guarded(|| ipv4_header_checksum(&data)), Vec::new()),
                ("icmp_ipv4_checksum", 2, guarded(|| icmp_ipv4_checksum(&data)), Vec::new()),
                ("icmp_ipv6_checksum", 2, guarded(|| icmp_ipv6_checksum(&data, s6, d6)), wire::pseudo6(s6, d6, PROTO_ICMP6, len)),
                ("udp_ipv4_checksum", 6, guarded(|| udp_ipv4_checksum(&data, s4, d4)), wire::pseudo4(s4, d4, PROTO_UDP, len)),
                ("udp_ipv6_checksum", 6, guarded(|| udp_ipv6_checksum(&data, s6, d6)), wire::pseudo6(s6, d6, PROTO_UDP, len)),
                ("tcp_ipv4_checksum", 16, guarded(|| tcp_ipv4_checksum(&data, s4, d4)), wire::pseudo4(s4, d4, PROTO_TCP, len)),
            ];
            for (name, off, got, pseudo) in cases {
                // the property speaks of a datagram with the checksum inserted: the field must exist
                if len < off + 2 {
                    match got {
                        Err(p) => o.violate("checksum_never_panics", format!("{name}|{}", p.site()), format!("len {len}: panic at {}:{}: {}", p.file, p.line, p.message), replay.clone()),
                        // the buffer ends inside the checksum field: "the checksum field taken as
                        // zero" still has a meaning for the half that is present
                        Ok(g) if len == off + 1 => {
                            let mut zeroed = data.clone();
                            zeroed[off] = 0;
                            let want = wire::csum(&[&pseudo, &zeroed]);
                            o.hit("partial_checksum_field_taken_as_zero");
                            if g != want {
                                o.violate("partial_checksum_field_taken_as_zero", name, format!("{name} len {len} (buffer ends inside the checksum field) content kind {kind}: {g:#06x} != RFC 1071 with the field zeroed {want:#06x}"), replay.clone());
                            }
                        }
                        // the buffer ends before the checksum field: there is nothing to take as
                        // zero, the result is the plain RFC 1071 checksum of what is there
                        // (the empty input is pinned by the repository's own tests to special values)
                        Ok(g) if len >= 1 && len <= off => {
                            let want = wire::csum(&[&pseudo, &data]);
                            o.hit("short_input_is_plain_rfc1071");
                            if g != want {
                                o.violate("short_input_is_plain_rfc1071", name, format!("{name} len {len} (shorter than the offset of the checksum field) content kind {kind}: {g:#06x} != RFC 1071 {want:#06x}"), replay.clone());
                            }
                        }
                        Ok(_) => {}
                    }
                    continue;
                }
                n += 1;
                let got = match got {
                    Ok(g) => g,
                    Err(p) => {
                        o.violate("checksum_never_panics", format!("{name}|{}", p.site()), format!("len {len}: panic at {}:{}: {}", p.file, p.line, p.message), replay.clone());
                        continue;
                    }
                };
                let mut zeroed = data.clone();
                zeroed[off] = 0;
                zeroed[off + 1] = 0;
                let want = wire::csum(&[&pseudo, &zeroed]);
                o.hit("equals_rfc1071");
                if got != want {
                    o.violate("equals_rfc1071", name, format!("{name} len {len} content kind {kind}: {got:#06x} != RFC 1071 {want:#06x} (data {}...)", wire::hex(&data[..data.len().min(24)])), replay.clone());
                    continue;
                }
                let mut inserted = data.clone();
                inserted[off..off + 2].copy_from_slice(&got.to_be_bytes());
                o.hit("inserted_sums_to_ffff");
                if wire::ones_sum(&[&pseudo, &inserted]) != 0xffff {
                    o.violate("inserted_sums_to_ffff", name, format!("{name} len {len}: datagram with checksum {got:#06x} inserted sums to {:#06x}", wire::ones_sum(&[&pseudo, &inserted])), replay.clone());
                }
            }
        }
    }
    o.count("checksum_evaluations", n);
    o.observe("address_pairs", format!("{s4}->{d4}"));
    o.nontrivial = Some(format!("codec#{s4}#{d4}#{s6}"));
    if j == 2 {
        o.sample = Some(json!({"function": "udp_ipv4_checksum", "src": s4.to_string(), "dst": d4.to_string(), "data_hex": "0000 0000 000a 0000 ffff", "note": "every length 0..=1024 x 5 content kinds x 6 functions"}));
    }
    o
}

/// Paris: the UDP checksum field on the wire equals the sequence and the datagram still verifies.
fn paris_job(seed: u64, j: usize, tier: Tier) -> Outcome {
    let mut o = Outcome::default();
    let cells: Vec<Cell> = all_cells(false).into_iter().filter(|c| c.protocol == Protocol::Udp && c.strategy == MultipathStrategy::Paris && !c.ext).collect();
    let cell = cells[j % cells.len()];
    let k = j / cells.len();
    let mut tcfg = cell.trace_cfg();
    // walk the sequence space: 254 sequences per round
    let (init, rounds) = match tier {
        Tier::Quick => ([0u16, 33434, 64_257, 64_511][k % 4], 6),
        Tier::Thorough => (if k % 2 == 0 { 0 } else { 64_260 }, if k % 2 == 0 { 260 } else { 8 }),
    };
    tcfg.initial_sequence = init;
    tcfg.max_rounds = Some(rounds);
    tcfg.first_ttl = 1;
    tcfg.max_ttl = 254;
    tcfg.max_inflight = 255;
    tcfg.read_timeout = ms(1);
    tcfg.min_round = ms(300);
    tcfg.max_round = ms(300);
    tcfg.ports = cell.port_direction(5000 + (k as u16 % 3) * 7919, 33_500 + (k as u16 % 3) * 101);
    // a boundary of one's complement arithmetic (IPv6, privileged): every fourth walk starts at an
    // initial sequence for which one probe of the first round has a checksum that computes to
    // zero before the swap (the datagram is ports, length 10, checksum, the 2 octet sequence)
    let mut zero_case = false;
    if cell.v6 && !cell.unprivileged && k % 4 == 3 {
        if let (std::net::IpAddr::V6(dst), Some((fixed, varies_dest))) = (
            tcfg.target,
            match tcfg.ports {
                trippy_core::PortDirection::FixedSrc(p) => Some((p.0, true)),
                trippy_core::PortDirection::FixedDest(p) => Some((p.0, false)),
                _ => None,
            },
        ) {
            let pseudo = wire::pseudo6(crate::scen::host_v6(), dst, PROTO_UDP, 10);
            'search: for init in 1024u16..60_000 {
                let (sp, dp) = if varies_dest { (fixed, init) } else { (init, fixed) };
                for jj in 0..250u16 {
                    let sq = init + jj;
                    let mut u = Vec::with_capacity(10);
                    u.extend_from_slice(&sp.to_be_bytes());
                    u.extend_from_slice(&dp.to_be_bytes());
                    u.extend_from_slice(&10u16.to_be_bytes());
                    u.extend_from_slice(&[0, 0]);
                    u.extend_from_slice(&sq.to_be_bytes());
                    if wire::csum(&[&pseudo, &u]) == 0 {
                        tcfg.initial_sequence = init;
                        zero_case = true;
                        break 'search;
                    }
                }
            }
        }
    }
    if zero_case {
        o.count("paris_walks_with_a_probe_whose_checksum_computes_to_zero", 1);
    }
    let mut t = HopSpec::simple(tcfg.target, 1_000_000);
    t.behaviour = Behaviour::Silent;
    let topo = Topology { hops: Vec::new(), target: t, tcp: TcpMode::Silent };
    let wcfg = world_cfg(topo, seed ^ j as u64);
    let site = cell.name();
    let replay = replay_of("C13", seed, j, &tcfg, &wcfg.topo);
    let Some((world, run)) = run_guarded(&wcfg, &tcfg, false, |_| {}, &mut o, &site, &replay, &format!("paris {j}")) else {
        return o;
    };
    let w = world.inner.lock().unwrap();
    let a = analyse(&w, 0, &run);
    check_wire(&w, &a, &run, &tcfg, &mut o, &site, &replay);
    // explicit: checksum field == sequence, and it verifies
    let host: IpAddr = if cell.v6 { w.cfg.host_v6.into() } else { w.cfg.host_v4.into() };
    for wp in &w.wires {
        let hl = if cell.v6 { 40 } else { 20 };
        let seg = &wp.bytes[hl..];
        let field = u16::from_be_bytes([seg[6], seg[7]]);
        o.hit("paris_checksum_is_sequence_and_verifies");
        o.observe(&format!("pseq:{}", if cell.v6 { "v6" } else { "v4" }), field.to_string());
        if !wire::transport_csum_ok(host, tcfg.target, PROTO_UDP, seg) {
            o.violate("paris_checksum_is_sequence_and_verifies", site.clone(), format!("datagram with checksum field {field} does not verify"), replay.clone());
            break;
        }
    }
    let _ = IpAddr::V4(Ipv4Addr::UNSPECIFIED);
    o.count("paris_datagrams", w.wires.len() as u64);
    o.nontrivial = Some(format!("paris#{site}#{init}#{k}"));
    o
}

pub fn run(tier: Tier, seed: u64, only: Option<String>) -> i32 {
    let mut rep = Report::new("C13", "exploration", tier, seed);
    rep.rule = "codec: the six public checksum functions over every data length 0..=1024 x {zeros, 0xff.., carry maximising ff fe.., counting pattern, random} x 8 (thorough 64) IPv4 and IPv6 address pairs incl. all-zero and all-ones, compared with an independent RFC 1071 routine over pseudo header + data with the checksum field zeroed, then re-verified with the checksum inserted (sum 0xffff); lengths that do not reach the checksum field must give the plain RFC 1071 checksum of what is there, a buffer ending inside the field must be summed with the present half taken as zero; Paris: the datagrams dispatched by the real tracer in the 12 UDP/Paris cells over walked sequence ranges (thorough: every issuable sequence) x 3 port pairs are captured at send_to: checksum field = sequence and the datagram verifies; distinct by (address pair | cell, initial sequence, port pair)".into();
    rep.assumptions = vec!["the checksum field is taken as zero (the functions skip the word at the field's offset)".into()];
    rep.required_clauses = vec!["equals_rfc1071", "inserted_sums_to_ffff", "paris_checksum_is_sequence_and_verifies", "udp_probe_fields"];
    let n1 = tier.pick(32, 256);
    let n2 = 12 * tier.pick(4, 6);
    match only {
        Some(s) if s.starts_with('p') => rep.merge(paris_job(seed, s[1..].parse().unwrap_or(0), tier)),
        Some(s) => {
            let o = codec_job(seed, s.parse().unwrap_or(0), tier);
            for v in o.violations.iter().take(10) {
                println!("{}: {}", v.signature(), v.detail);
            }
            rep.merge(o);
        }
        None => rep.run_parallel(n1 + n2, |i| if i < n1 { codec_job(seed, i, tier) } else { paris_job(seed, i - n1, tier) }),
    }
    let mut per = serde_json::Map::new();
    for (k, v) in &rep.sets {
        if let Some(f) = k.strip_prefix("pseq:") {
            per.insert(f.to_string(), json!(v.len()));
        }
    }
    rep.extras.insert("distinct_paris_sequences_on_wire".into(), serde_json::Value::Object(per));
    let keys: Vec<String> = rep.sets.keys().filter(|k| k.starts_with("pseq:")).cloned().collect();
    for k in keys {
        rep.sets.remove(&k);
    }
    rep.finish()
}
