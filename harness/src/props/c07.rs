//! C07 - sequence numbers stay unique, in range and inside the round buffer.
use crate::e2e::{check_outcomes, replay_of, run_guarded, E2eOpts};
use crate::framework::{guarded, Outcome, Report, Tier};
use crate::oracles::check_sequences;
use crate::prng::Prng;
use crate::scen::{self, all_cells, ms, world_cfg, Cell};
use crate::truth::analyse;
use crate::world::{Behaviour, HopSpec, Quote, TcpMode, Topology};
use serde_json::json;
use std::collections::HashSet;
use std::net::IpAddr;
use std::time::{Duration, SystemTime};
use trippy_core::verif::{SeqMachine, StrategyConfig};
use trippy_core::{MaxInflight, MultipathStrategy, PortDirection, ProbeStatus, Protocol, Sequence, TimeToLive, TraceId};

// ------------------------------------------------------------------------------------------------
// observation A: end to end

fn e2e_scenario(seed: u64, i: usize, tier: Tier) -> Outcome {
    let mut o = Outcome::default();
    let mut r = Prng::new(seed ^ (i as u64).wrapping_mul(0x9E37_79B9_7F4A_7C15) ^ 0xC07);
    let cells = all_cells(false);
    // TCP storms, long ICMP/UDP paths, Dublin/IPv6
    let kind = i % 3;
    let cell: Cell = match kind {
        0 => *r.pick(&cells.iter().copied().filter(|c| c.protocol == Protocol::Tcp).collect::<Vec<_>>()),
        1 => *r.pick(&cells.iter().copied().filter(|c| c.protocol != Protocol::Tcp && !(c.strategy == MultipathStrategy::Dublin && c.v6)).collect::<Vec<_>>()),
        _ => *r.pick(&cells.iter().copied().filter(|c| c.strategy == MultipathStrategy::Dublin && c.v6).collect::<Vec<_>>()),
    };
    let mut tcfg = cell.trace_cfg();
    // (the last three are beyond what the builder accepts today: if a build accepts them, the
    // sequence clauses are judged on the run all the same)
    tcfg.initial_sequence = *r.pick(&[0u16, 33434, 64_000, 64_257, 64_510, 64_511, 64_511, 64_512, 64_800, 65_023]);
    tcfg.first_ttl = 1;
    tcfg.max_ttl = *r.pick(&[30u8, 254]);
    tcfg.max_inflight = 255;
    tcfg.read_timeout = ms(1);
    tcfg.min_round = ms(400);
    tcfg.max_round = ms(400);
    tcfg.grace = ms(2);
    tcfg.tcp_connect_timeout = ms(100);
    tcfg.max_rounds = Some(tier.pick(12, 300));
    if cell.v6 && tcfg.packet_size < 48 {
        tcfg.packet_size = 104;
    }
    // a long silent path: every ttl is issued in every round
    let dist = usize::from(tcfg.max_ttl) + 1;
    let hops: Vec<HopSpec> = (0..dist - 1)
        .map(|h| {
            let mut s = HopSpec::simple(scen::hop_addr(cell.v6, h % 200, h / 200), 200_000);
            s.quote = Quote::Full;
            if r.chance(1, 2) {
                s.behaviour = Behaviour::Silent;
            }
            s
        })
        .collect();
    let mut t = HopSpec::simple(tcfg.target, 300_000);
    t.behaviour = Behaviour::Silent;
    let topo = Topology { hops, target: t, tcp: TcpMode::Silent };
    let mut wcfg = world_cfg(topo, seed ^ i as u64);
    let storm = if cell.protocol == Protocol::Tcp { *r.pick(&[0u8, 30, 60, 75, 90]) } else { 0 };
    wcfg.faults.bind_in_use_pct = storm;
    // one TCP world in four: every local port from the one the last ttl of the first round would
    // use onwards is taken, so the budget runs out while re-issuing the probe of the last ttl
    let block_last = cell.protocol == Protocol::Tcp && matches!(tcfg.ports, trippy_core::PortDirection::FixedDest(_)) && r.chance(1, 2) && tcfg.initial_sequence <= 64_000;
    if block_last {
        wcfg.faults.bind_in_use_pct = 0;
        let first_blocked = tcfg.initial_sequence + u16::from(tcfg.max_ttl) - 1;
        wcfg.faults.ports_in_use = (first_blocked..first_blocked.saturating_add(700)).collect();
    }
    let site = cell.name();
    let replay = replay_of("C07", seed, i, &tcfg, &wcfg.topo);
    if tcfg.initial_sequence > 64_511 && tcfg.builder().build().is_err() {
        o.count("initial_sequences_rejected_by_the_builder", 1);
        o.nontrivial = Some(format!("{site}|init{}|rejected", tcfg.initial_sequence));
        return o;
    }
    let Some((world, run)) = run_guarded(&wcfg, &tcfg, false, |_| {}, &mut o, &site, &replay, &format!("scenario {i}")) else {
        return o;
    };
    let w = world.inner.lock().unwrap();
    // exhausting the budget ends the trace with a capacity error, anything else is a failure
    match &run.result {
        Ok(()) => {}
        Err(e) if e.contains("insufficient buffer capacity") => {
            o.hit("exhaustion_is_a_capacity_error");
            // ... and only when the round really ran out of sequence numbers
            let a = analyse(&w, 0, &run);
            if a.tail.groups.len() < 512 {
                o.violate("exhaustion_is_a_capacity_error", site.clone(), format!("capacity error after only {} dispatches in the round", a.tail.groups.len()), replay.clone());
            }
        }
        Err(e) => o.violate("run_completes", format!("{site}|{}", e.split(':').next().unwrap_or("")), format!("run failed: {e}"), replay.clone()),
    }
    // ... and conversely: a round that used the whole budget ends the trace with that error
    if run.result.is_ok() {
        if let Some(r512) = run.rounds.iter().find(|r| r.probes.len() >= 512) {
            o.hit("exhaustion_is_a_capacity_error");
            o.violate("exhaustion_is_a_capacity_error", format!("{site}|no-error"), format!("round {} was published with {} slots (the whole sequence budget) and the trace carried on / returned Ok", r512.index, r512.probes.len()), replay.clone());
        }
    }
    let a = analyse(&w, 0, &run);
    check_outcomes(&w, &a, &run, &tcfg, &mut o, &site, &replay, &E2eOpts { check_ext: false });
    let seq_site = if cell.protocol == Protocol::Tcp && tcfg.initial_sequence > 63_999 { "tcp/initial-sequence>63999".to_string() } else { site.clone() };
    check_sequences(&run, &tcfg, &mut o, &seq_site, &replay);
    let max_round = run.rounds.iter().map(|r| crate::truth::dispatched_slots(r).len()).max().unwrap_or(0);
    o.count("rounds", run.rounds.len() as u64);
    o.count("largest_round_seen", 0);
    o.observe("largest_round_sizes", format!("{}", max_round / 64 * 64));
    o.observe("e2e_shapes", format!("{}|init{}|storm{storm}", ["tcp-storm", "long-path", "dublin-v6"][kind], tcfg.initial_sequence));
    o.nontrivial = Some(format!("{site}|init{}|storm{storm}|ttl{}", tcfg.initial_sequence, tcfg.max_ttl));
    if i < 3 {
        o.sample = Some(json!({"scenario": i, "cell": site, "initial_sequence": tcfg.initial_sequence, "bind_in_use_pct": storm, "result": format!("{:?}", run.result),
            "round_first_sequences": run.rounds.iter().take(12).map(|r| r.probes.iter().find_map(|p| match p { ProbeStatus::Awaited(a) => Some(a.sequence.0), ProbeStatus::Complete(c) => Some(c.sequence.0), _ => None })).collect::<Vec<_>>()}));
    }
    o
}

// ------------------------------------------------------------------------------------------------
// observation B: walk of the real allocator

fn strategy_config(init: u16, dublin6: bool) -> StrategyConfig {
    StrategyConfig {
        target_addr: if dublin6 { IpAddr::V6(scen::target_v6()) } else { IpAddr::V4(scen::TARGET_V4) },
        protocol: if dublin6 { Protocol::Udp } else { Protocol::Tcp },
        trace_identifier: TraceId(0),
        max_rounds: None,
        first_ttl: TimeToLive(1),
        max_ttl: TimeToLive(254),
        grace_duration: Duration::ZERO,
        max_inflight: MaxInflight(255),
        initial_sequence: Sequence(init),
        multipath_strategy: if dublin6 { MultipathStrategy::Dublin } else { MultipathStrategy::Classic },
        port_direction: if dublin6 { PortDirection::new_fixed_src(5000) } else { PortDirection::new_fixed_dest(80) },
        min_round_duration: Duration::ZERO,
        max_round_duration: Duration::ZERO,
    }
}

struct WalkStats {
    edges: HashSet<(u16, u16)>,
    nodes: HashSet<u16>,
    ops: u64,
    prev_round_still_in_round: u64,
}

/// Walk rounds of size `k` (after a first round of size `first`), until a start sequence repeats.
fn walk(init: u16, dublin6: bool, first: u16, k: u16, st: &mut WalkStats, o: &mut Outcome, site: &str) {
    let mut m = SeqMachine::new(strategy_config(init, dublin6));
    let now = SystemTime::UNIX_EPOCH;
    let mut prev: Vec<u16> = Vec::new();
    let mut seen_starts: HashSet<u16> = HashSet::new();
    let mut size = first;
    let replay = json!({"how": "vcheck C07 (allocator walk)", "initial_sequence": init, "dublin_ipv6": dublin6, "first_round": first, "round_size": k});
    for _round in 0..200_000u32 {
        // issue `size` sequence numbers the way the strategy does: a probe per ttl, re-issues
        // once the ttl range is exhausted, always checking capacity first (TCP arm)
        let mut issued: Vec<u16> = Vec::new();
        let mut start: Option<u16> = None;
        let mut ttl_issued = 0u16;
        let r = guarded(|| {
            for _ in 0..size {
                if !m.round_has_capacity() {
                    break;
                }
                let p = if ttl_issued < 254 {
                    ttl_issued += 1;
                    m.next_probe(now)
                } else {
                    m.reissue_probe(now)
                };
                issued.push(p.sequence.0);
                st.ops += 1;
            }
        });
        if let Err(p) = r {
            o.violate("allocator_never_panics", format!("{site}|{}", p.site()), format!("init {init} round size {size}: panic at {}:{}: {}", p.file, p.line, p.message), replay.clone());
            return;
        }
        if let Some(&s0) = issued.first() {
            start = Some(s0);
            o.hit("walk_consecutive_in_range");
            let ok = issued.iter().enumerate().all(|(i, s)| u32::from(*s) == u32::from(s0) + i as u32) && u32::from(s0) + issued.len() as u32 <= 65_535 && issued.len() <= 512;
            if !ok {
                o.violate("walk_consecutive_in_range", site, format!("init {init}: round issued {} sequences from {s0}: {:?}...", issued.len(), &issued[..issued.len().min(4)]), replay.clone());
                return;
            }
            if issued.len() < usize::from(size) {
                // capacity exhausted: must be exactly at 512
                o.hit("capacity_exhausted_exactly_at_512");
                if issued.len() != 512 {
                    o.violate("capacity_exhausted_exactly_at_512", site, format!("init {init}: capacity reported exhausted after {} sequences", issued.len()), replay.clone());
                }
            }
            if m.probes().len() != issued.len() {
                o.violate("walk_consecutive_in_range", format!("{site}|probes_len"), format!("probes() has {} entries, {} issued", m.probes().len(), issued.len()), replay.clone());
            }
            if !issued.iter().all(|s| m.in_round(Sequence(*s))) {
                o.violate("walk_consecutive_in_range", format!("{site}|in_round"), "an issued sequence is not in_round".to_string(), replay.clone());
            }
            o.hit("walk_disjoint_from_previous_round");
            if let (Some(&pf), Some(&pl)) = (prev.first(), prev.last()) {
                if s0 <= pl && *issued.last().unwrap() >= pf {
                    o.violate("walk_disjoint_from_previous_round", site, format!("init {init}: round {s0}..={} overlaps previous {pf}..={pl}", issued.last().unwrap()), replay.clone());
                    return;
                }
                o.hit("walk_forward_or_restart");
                if !(u32::from(s0) == u32::from(pl) + 1 || s0 == init) {
                    o.violate("walk_forward_or_restart", site, format!("init {init}: round starts at {s0} after {pf}..={pl}"), replay.clone());
                    return;
                }
                // metric only: previous round numbers that the window test would still accept
                st.prev_round_still_in_round += prev.iter().filter(|s| m.in_round(Sequence(**s))).count() as u64;
                // a round that continues forward: every number of the preceding round lies below
                // the round's first number and must not be valid in this round
                if u32::from(s0) == u32::from(pl) + 1 {
                    o.hit("walk_numbers_below_the_round_start_are_invalid");
                    if let Some(bad) = prev.iter().chain([s0 - 1, s0.saturating_sub(512), 0].iter()).find(|s| **s < s0 && m.in_round(Sequence(**s))) {
                        o.violate("walk_numbers_below_the_round_start_are_invalid", site, format!("init {init}: round starts at {s0}, but {bad} (below it, used in the preceding round or earlier) is still accepted as in-round"), replay.clone());
                        return;
                    }
                }
            }
            if dublin6 {
                o.hit("walk_dublin_ipv6_payload_fits");
                let last = u32::from(*issued.last().unwrap());
                // only rounds a UDP trace can produce (no re-issues: at most 254 per round)
                if issued.len() <= 254 && last - u32::from(init) + 6 > 976 {
                    o.violate("walk_dublin_ipv6_payload_fits", site, format!("init {init}: sequence {last} needs a payload of {} octets", last - u32::from(init) + 6), replay.clone());
                }
            }
        }
        if let Some(s0) = start {
            st.nodes.insert(s0);
            st.edges.insert((s0, size));
            if size == k && !seen_starts.insert(s0) {
                return;
            }
            prev = issued;
        } else {
            // an empty round: the start does not move
            if size == k {
                return;
            }
            prev.clear();
        }
        let r = guarded(|| m.advance_round(TimeToLive(1)));
        if let Err(p) = r {
            o.violate("allocator_never_panics", format!("{site}|{}", p.site()), format!("advance_round panic at {}:{}: {}", p.file, p.line, p.message), replay.clone());
            return;
        }
        size = k;
    }
}

fn walk_job(seed: u64, j: usize, tier: Tier) -> Outcome {
    let mut o = Outcome::default();
    let mut r = Prng::new(seed ^ (j as u64) << 7 ^ 0xA110C);
    let inits: &[u16] = tier.pick(&[0u16, 64_257, 64_511], &[0u16, 33434, 64_000, 64_257, 64_510, 64_511]);
    let init = inits[j % inits.len()];
    let dublin6 = (j / inits.len()) % 2 == 1;
    let site = format!("allocator/{}/init{init}", if dublin6 { "dublin-ipv6" } else { "general" });
    let mut st = WalkStats { edges: HashSet::new(), nodes: HashSet::new(), ops: 0, prev_round_still_in_round: 0 };
    let small_space = init >= 64_000 || dublin6;
    let mut ks: Vec<u16> = if tier == Tier::Thorough && small_space { (0..=512).collect() } else { vec![0, 1, 2, 253, 254, 255, 256, 511, 512] };
    if !dublin6 {
        // ask for more than the budget: capacity must run out at exactly 512
        ks.push(600);
    }
    if dublin6 {
        // a UDP trace never re-issues: a round has at most 254 sequence numbers
        ks.retain(|k| *k <= 254);
    }
    // Known arithmetic limit (see known_findings.json): with an initial sequence above 63999 the
    // window of the round after a wrap reaches into the numbers of the round before it.
    let site = if !dublin6 && init > 63_999 { "allocator/general/initial-sequence>63999".to_string() } else { site };
    for &k in &ks {
        // first round sizes: every residue for small spaces / small k, a sample otherwise
        let firsts: Vec<u16> = if k == 0 {
            vec![0, 1, 300]
        } else if small_space || k <= 2 {
            (0..k.min(512)).step_by(if k > 512 { 97 } else { 1 }).collect()
        } else {
            let mut v: Vec<u16> = vec![0, 1, k - 1];
            for _ in 0..tier.pick(3, 24) {
                v.push(r.below(u64::from(k)) as u16);
            }
            v
        };
        for f in firsts {
            walk(init, dublin6, f, k, &mut st, &mut o, &site);
            if !o.violations.is_empty() {
                break;
            }
        }
    }
    o.count("allocator_operations", st.ops);
    o.count("allocator_graph_nodes", st.nodes.len() as u64);
    o.count("allocator_graph_edges", st.edges.len() as u64);
    o.count("metric_prev_round_numbers_still_inside_window", st.prev_round_still_in_round);
    o.observe("walked", format!("{site}|k={}", ks.len()));
    o.nontrivial = Some(site.clone());
    o.sample = Some(json!({"walk": site, "round_sizes": ks.len(), "nodes": st.nodes.len(), "edges": st.edges.len(), "ops": st.ops}));
    o
}

pub fn run(tier: Tier, seed: u64, only: Option<String>) -> i32 {
    let mut rep = Report::new("C07", "exploration", tier, seed);
    rep.rule = "observation A (e2e): TCP worlds with address-in-use storms (0..90% of binds fail, i.e. up to several hundred re-issues per round, exhausting the 512 budget), ICMP/UDP worlds with 254-hop silent paths, Dublin/IPv6 worlds, at initial sequences {0, 33434, 64000, 64257, 64510, 64511}, 12..300 rounds so that the wrap occurs inside the run; observation B: the real TracerState driven through the SeqMachine hook: for boundary initial sequences and both maximum-sequence regimes, rounds of size k (quick: k in {0,1,2,253,254,255,256,511,512}; thorough: every k in 0..=512 for the small state spaces) from every first-round offset until the start sequence repeats; nodes/edges of the (round start, round size) graph are counted in the counters; distinct by (scenario shape | walked allocator configuration)".into();
    rep.assumptions = vec![
        "'a sequence used in the preceding round is never valid in the current one' is decided on its observable content: the sets of sequence numbers issued in consecutive rounds are disjoint (and C03 separately shows that late responses complete nothing); how many previous-round numbers the raw window test in_round() would still accept is reported as a metric (counter metric_prev_round_numbers_still_inside_window), not judged".into(),
        "the Dublin/IPv6 payload bound is judged for rounds a UDP trace can produce (at most 254 sequences per round, no re-issues)".into(),
    ];
    rep.required_clauses = vec![
        "consecutive_within_round",
        "never_reaches_65535",
        "at_most_512_per_round",
        "forward_or_restart_between_rounds",
        "restart_cases",
        "disjoint_from_previous_round",
        "dublin_ipv6_payload_fits",
        "exhaustion_is_a_capacity_error",
        "walk_consecutive_in_range",
        "walk_disjoint_from_previous_round",
        "capacity_exhausted_exactly_at_512",
    ];
    let n = tier.pick(1500, 2000);
    let walks = tier.pick(6, 12);
    match only {
        Some(s) if s.starts_with('w') => rep.merge(walk_job(seed, s[1..].parse().unwrap_or(0), tier)),
        Some(s) => {
            let o = e2e_scenario(seed, s.parse().unwrap_or(0), tier);
            for v in o.violations.iter().take(20) {
                println!("{}: {}", v.signature(), v.detail);
            }
            rep.merge(o);
        }
        None => {
            rep.run_parallel(n + walks, |i| if i < walks { walk_job(seed, i, tier) } else { e2e_scenario(seed, i - walks, tier) });
            // "a sequence number used in the immediately preceding round is never valid in the
            // current one", on its second observable: a late response naming such a number must
            // be dropped, not used to index the round buffer (the C03 worlds with late copies,
            // judged here only for panics and for termination)
            let cells = crate::scen::all_cells(false);
            let m = tier.pick(cells.len(), cells.len() * 6);
            rep.run_parallel(m, |i| crate::props::c03::run_scenario(seed ^ 0xC07, i, &cells, tier).retain_clauses(&[], "late-responses"));
        }
    }
    let nodes = rep.counters.get("allocator_graph_nodes").copied().unwrap_or(0);
    let edges = rep.counters.get("allocator_graph_edges").copied().unwrap_or(0);
    rep.extras.insert("states".into(), json!(nodes));
    rep.extras.insert("transitions".into(), json!(edges));
    rep.finish()
}
