//! C16 - option precedence is CLI over file over default; accepted configurations can run.
use crate::framework::{guarded, Outcome, Report, Tier};
use crate::prng::Prng;
use crate::scen::{self, world_cfg};
use crate::sim::{run_tracer, RunOpts};
use crate::world::{HopSpec, Quote, TcpMode, Topology, World};
use clap::Parser;
use serde_json::json;
use std::collections::BTreeMap;
use std::net::IpAddr;
use std::time::Duration;
use trippy_core::{Builder, IcmpExtensionParseMode, MultipathStrategy, Port, PortDirection, PrivilegeMode, Protocol};
use trippy_privilege::Privilege;
use trippy_tui::verif::{build_config, builder_for, Args, ConfigFile, TrippyConfig};

#[derive(Debug, Clone, Copy, PartialEq, Eq, PartialOrd, Ord)]
enum St {
    Absent,
    File,
    Cli,
    Both,
}

/// One option: how to give it on the command line, in the file, and how to read it back.
struct Opt {
    name: &'static str,
    section: &'static str,
    /// (command line text, TOML literal, expected effective value as rendered by `get`)
    vals: Vec<(&'static str, &'static str, String)>,
    /// documented default (trippy-config-sample.toml / --help), rendered like `get`
    default: String,
    /// boolean flags have no CLI value and cannot be switched off from the command line
    flag: bool,
    get: fn(&TrippyConfig) -> String,
}

fn d(ms: u64) -> String {
    format!("{:?}", Duration::from_millis(ms))
}

fn options() -> Vec<Opt> {
    macro_rules! o {
        ($name:expr, $sec:expr, [$(($c:expr, $t:expr, $e:expr)),*], $def:expr, $get:expr) => {
            Opt { name: $name, section: $sec, vals: vec![$(($c, $t, $e.to_string())),*], default: $def.to_string(), flag: false, get: $get }
        };
    }
    macro_rules! flag {
        ($name:expr, $sec:expr, $get:expr) => {
            Opt { name: $name, section: $sec, vals: vec![("", "true", "true".to_string()), ("", "false", "false".to_string())], default: "false".to_string(), flag: true, get: $get }
        };
    }
    vec![
        o!("mode", "trippy", [("stream", "\"stream\"", "Stream"), ("silent", "\"silent\"", "Silent"), ("pretty", "\"pretty\"", "Pretty"), ("tui", "\"tui\"", "Tui")], "Tui", |c| format!("{:?}", c.mode)),
        flag!("unprivileged", "trippy", |c| (c.privilege_mode == PrivilegeMode::Unprivileged).to_string()),
        o!("log-format", "trippy", [("json", "\"json\"", "Json"), ("compact", "\"compact\"", "Compact"), ("pretty", "\"pretty\"", "Pretty")], "Pretty", |c| format!("{:?}", c.log_format)),
        o!("log-filter", "trippy", [("a=info", "\"a=info\"", "a=info"), ("b=trace", "\"b=trace\"", "b=trace"), ("trippy=debug", "\"trippy=debug\"", "trippy=debug")], "trippy=debug", |c| c.log_filter.clone()),
        o!("log-span-events", "trippy", [("active", "\"active\"", "Active"), ("full", "\"full\"", "Full"), ("off", "\"off\"", "Off")], "Off", |c| format!("{:?}", c.log_span_events)),
        o!("protocol", "strategy", [("udp", "\"udp\"", "Udp"), ("tcp", "\"tcp\"", "Tcp"), ("icmp", "\"icmp\"", "Icmp")], "Icmp", |c| format!("{:?}", c.protocol)),
        o!("addr-family", "strategy", [("ipv6", "\"ipv6\"", "Ipv6Only"), ("ipv6-then-ipv4", "\"ipv6-then-ipv4\"", "Ipv6thenIpv4"), ("system", "\"system\"", "System"), ("ipv4-then-ipv6", "\"ipv4-then-ipv6\"", "Ipv4thenIpv6")], "Ipv4thenIpv6", |c| format!("{:?}", c.addr_family)),
        o!("min-round-duration", "strategy", [("100ms", "\"100ms\"", d(100)), ("250ms", "\"250ms\"", d(250)), ("1s", "\"1s\"", d(1000))], d(1000), |c| format!("{:?}", c.min_round_duration)),
        o!("max-round-duration", "strategy", [("2s", "\"2s\"", d(2000)), ("3500ms", "\"3500ms\"", d(3500)), ("1s", "\"1s\"", d(1000))], d(1000), |c| format!("{:?}", c.max_round_duration)),
        o!("grace-duration", "strategy", [("20ms", "\"20ms\"", d(20)), ("1s", "\"1s\"", d(1000)), ("100ms", "\"100ms\"", d(100))], d(100), |c| format!("{:?}", c.grace_duration)),
        o!("initial-sequence", "strategy", [("1000", "1000", "1000"), ("64511", "64511", "64511"), ("33434", "33434", "33434"), ("0", "0", "0")], "33434", |c| c.initial_sequence.to_string()),
        o!("multipath-strategy", "strategy", [("paris", "\"paris\"", "Paris"), ("dublin", "\"dublin\"", "Dublin"), ("classic", "\"classic\"", "Classic")], "Classic", |c| format!("{:?}", c.multipath_strategy)),
        o!("max-inflight", "strategy", [("1", "1", "1"), ("255", "255", "255"), ("24", "24", "24")], "24", |c| c.max_inflight.to_string()),
        o!("first-ttl", "strategy", [("2", "2", "2"), ("5", "5", "5"), ("1", "1", "1")], "1", |c| c.first_ttl.to_string()),
        o!("max-ttl", "strategy", [("30", "30", "30"), ("254", "254", "254"), ("64", "64", "64")], "64", |c| c.max_ttl.to_string()),
        o!("packet-size", "strategy", [("100", "100", "100"), ("1024", "1024", "1024"), ("84", "84", "84")], "84", |c| c.packet_size.to_string()),
        o!("payload-pattern", "strategy", [("255", "255", "255"), ("85", "85", "85"), ("0", "0", "0")], "0", |c| c.payload_pattern.to_string()),
        o!("tos", "strategy", [("184", "184", "184"), ("255", "255", "255"), ("0", "0", "0")], "0", |c| c.tos.to_string()),
        flag!("icmp-extensions", "strategy", |c| (c.icmp_extension_parse_mode == IcmpExtensionParseMode::Enabled).to_string()),
        o!("read-timeout", "strategy", [("20ms", "\"20ms\"", d(20)), ("100ms", "\"100ms\"", d(100)), ("10ms", "\"10ms\"", d(10))], d(10), |c| format!("{:?}", c.read_timeout)),
        o!("max-samples", "strategy", [("1", "1", "1"), ("1000", "1000", "1000"), ("256", "256", "256")], "256", |c| c.max_samples.to_string()),
        o!("max-flows", "strategy", [("1", "1", "1"), ("128", "128", "128"), ("64", "64", "64")], "64", |c| c.max_flows.to_string()),
        o!("source-address", "strategy", [("192.168.1.2", "\"192.168.1.2\"", "Some(192.168.1.2)"), ("10.9.9.9", "\"10.9.9.9\"", "Some(10.9.9.9)")], "None", |c| format!("{:?}", c.source_addr)),
        o!("dns-resolve-method", "dns", [("google", "\"google\"", "Google"), ("cloudflare", "\"cloudflare\"", "Cloudflare"), ("system", "\"system\"", "System")], "System", |c| format!("{:?}", c.dns_resolve_method)),
        flag!("dns-lookup-as-info", "dns", |c| c.dns_lookup_as_info.to_string()),
        o!("dns-timeout", "dns", [("1s", "\"1s\"", d(1000)), ("7s", "\"7s\"", d(7000)), ("5s", "\"5s\"", d(5000))], d(5000), |c| format!("{:?}", c.dns_timeout)),
        o!("dns-ttl", "dns", [("10s", "\"10s\"", d(10_000)), ("1h", "\"1h\"", d(3_600_000)), ("300s", "\"300s\"", d(300_000))], d(300_000), |c| format!("{:?}", c.dns_ttl)),
        o!("report-cycles", "report", [("3", "3", "3"), ("77", "77", "77"), ("10", "10", "10")], "10", |c| c.report_cycles.to_string()),
        o!("tui-address-mode", "tui", [("ip", "\"ip\"", "Ip"), ("both", "\"both\"", "Both"), ("host", "\"host\"", "Host")], "Host", |c| format!("{:?}", c.tui_address_mode)),
        o!("tui-as-mode", "tui", [("prefix", "\"prefix\"", "Prefix"), ("name", "\"name\"", "Name"), ("country-code", "\"country-code\"", "CountryCode"), ("asn", "\"asn\"", "Asn")], "Asn", |c| format!("{:?}", c.tui_as_mode)),
        o!("tui-custom-columns", "tui", [("hol", "\"hol\"", "hol"), ("holsravbwdtSPQ", "\"holsravbwdtSPQ\"", "holsravbwdtSPQ"), ("holsravbwdt", "\"holsravbwdt\"", "holsravbwdt")], "holsravbwdt", |c| c.tui_custom_columns.0.iter().map(|x| format!("{x}")).collect::<String>()),
        o!("tui-icmp-extension-mode", "tui", [("mpls", "\"mpls\"", "Mpls"), ("all", "\"all\"", "All"), ("off", "\"off\"", "Off")], "Off", |c| format!("{:?}", c.tui_icmp_extension_mode)),
        o!("tui-geoip-mode", "tui", [("short", "\"short\"", "Short"), ("location", "\"location\"", "Location"), ("off", "\"off\"", "Off")], "Off", |c| format!("{:?}", c.tui_geoip_mode)),
        o!("tui-max-addrs", "tui", [("3", "3", "Some(3)"), ("9", "9", "Some(9)"), ("0", "0", "None")], "None", |c| format!("{:?}", c.tui_max_addrs)),
        flag!("tui-preserve-screen", "tui", |c| c.tui_preserve_screen.to_string()),
        o!("tui-refresh-rate", "tui", [("50ms", "\"50ms\"", d(50)), ("1s", "\"1s\"", d(1000)), ("100ms", "\"100ms\"", d(100))], d(100), |c| format!("{:?}", c.tui_refresh_rate)),
        o!("tui-privacy-max-ttl", "tui", [("0", "0", "Some(0)"), ("7", "7", "Some(7)")], "None", |c| format!("{:?}", c.tui_privacy_max_ttl)),
        o!("tui-locale", "tui", [("fr", "\"fr\"", "Some(\"fr\")"), ("de", "\"de\"", "Some(\"de\")")], "None", |c| format!("{:?}", c.tui_locale)),
        o!("tui-timezone", "tui", [("UTC", "\"UTC\"", "Some(UTC)"), ("Europe/London", "\"Europe/London\"", "Some(Europe/London)")], "None", |c| format!("{:?}", c.tui_timezone)),
        o!("geoip-mmdb-file", "tui", [("/x/a.mmdb", "\"/x/a.mmdb\"", "Some(\"/x/a.mmdb\")"), ("/y/b.mmdb", "\"/y/b.mmdb\"", "Some(\"/y/b.mmdb\")")], "None", |c| format!("{:?}", c.geoip_mmdb_file)),
    ]
}

/// The defaults documented in trippy-config-sample.toml, rendered like the option getters.
fn documented_defaults() -> BTreeMap<String, String> {
    let text = std::fs::read_to_string("/repo/trippy-config-sample.toml").unwrap_or_default();
    let mut m = BTreeMap::new();
    for line in text.lines() {
        let l = line.trim();
        if l.starts_with('#') || l.starts_with('[') || !l.contains('=') {
            continue;
        }
        let (k, v) = l.split_once('=').unwrap();
        m.insert(k.trim().to_string(), v.trim().trim_matches('"').to_string());
    }
    m
}

struct Case {
    argv: Vec<String>,
    toml: String,
    states: BTreeMap<&'static str, (St, usize, usize)>,
}

/// Draw a configuration: every option independently absent / in the file / on the command line /
/// both (with different values), subject to the documented cross-option rules so that the whole is
/// acceptable.
fn draw(r: &mut Prng, opts: &[Opt], forced: Option<(&'static str, St)>) -> Case {
    let mut states: BTreeMap<&'static str, (St, usize, usize)> = BTreeMap::new();
    for o in opts {
        let mut st = match r.below(4) {
            0 => St::Absent,
            1 => St::File,
            2 => St::Cli,
            _ => St::Both,
        };
        if let Some((n, s)) = forced {
            if n == o.name {
                st = s;
            }
        }
        let a = r.below(o.vals.len() as u64) as usize;
        let mut b = r.below(o.vals.len() as u64) as usize;
        if b == a {
            b = (a + 1) % o.vals.len();
        }
        states.insert(o.name, (st, a, b));
    }
    // effective value index of an option by the precedence rule (cli index `b`, file index `a`)
    let eff = |states: &BTreeMap<&'static str, (St, usize, usize)>, name: &str| -> Option<usize> {
        let (st, a, b) = states[name];
        match st {
            St::Absent => None,
            St::File => Some(a),
            St::Cli | St::Both => Some(b),
        }
    };
    let is_forced = |n: &str| forced.is_some_and(|(f, _)| f == n);
    let _ = &eff;
    // effective value of an option, rendered like its getter
    let val = |states: &BTreeMap<&'static str, (St, usize, usize)>, name: &str| -> String {
        let o = opts.iter().find(|o| o.name == name).unwrap();
        expected(o, states[name])
    };
    // give a background option a specific value (index `i`) wherever it is given
    let set_to = |states: &mut BTreeMap<&'static str, (St, usize, usize)>, name: &'static str, i: usize| {
        let (st, _, _) = states[name];
        let st = match st {
            St::Absent => St::File,
            St::Both => St::Cli,
            s => s,
        };
        states.insert(name, (st, i, i));
    };
    // ---- documented cross-option rules: repair the background, never the option under test
    // flags: "both" means the file says false and the command line switches it on
    // verbose logging is not drawn at all; tui mode is the default
    // unprivileged excludes paris / dublin
    if val(&states, "unprivileged") == "true" && val(&states, "multipath-strategy") != "Classic" {
        if is_forced("multipath-strategy") {
            states.insert("unprivileged", (St::Absent, 0, 1));
        } else {
            states.insert("multipath-strategy", (St::Absent, 0, 1));
        }
    }
    // paris / dublin need udp
    if val(&states, "multipath-strategy") != "Classic" && val(&states, "protocol") != "Udp" {
        if is_forced("protocol") {
            states.insert("multipath-strategy", (St::Absent, 0, 1));
        } else {
            // protocol udp is value index 0
            set_to(&mut states, "protocol", 0);
        }
    }
    // AS lookups need a resolver other than system
    if val(&states, "dns-lookup-as-info") == "true" && val(&states, "dns-resolve-method") == "System" {
        if is_forced("dns-resolve-method") {
            states.insert("dns-lookup-as-info", (St::Absent, 0, 1));
        } else {
            set_to(&mut states, "dns-resolve-method", 0);
        }
    }
    // a geoip mode needs a database file
    if val(&states, "tui-geoip-mode") != "Off" && val(&states, "geoip-mmdb-file") == "None" {
        if is_forced("geoip-mmdb-file") {
            states.insert("tui-geoip-mode", (St::Absent, 0, 1));
        } else {
            states.insert("geoip-mmdb-file", (St::Cli, 0, 1));
        }
    }
    // grace-duration value 1s (index 1) is fine; read timeout fine; packet size >= 48 always
    // ---- render
    let mut argv = vec!["trip".to_string(), "example.com".to_string()];
    let mut sections: BTreeMap<&'static str, Vec<String>> = BTreeMap::new();
    for o in opts {
        let (st, a, b) = states[o.name];
        if matches!(st, St::File | St::Both) {
            let lit = if o.flag { if st == St::Both { "false" } else { o.vals[a].1 } } else { o.vals[a].1 };
            sections.entry(o.section).or_default().push(format!("{} = {}", o.name, lit));
        }
        if matches!(st, St::Cli | St::Both) {
            argv.push(format!("--{}", o.name));
            if !o.flag {
                argv.push(o.vals[b].0.to_string());
            }
        }
    }
    let mut toml = String::new();
    for (s, lines) in sections {
        toml.push_str(&format!("[{s}]\n{}\n", lines.join("\n")));
    }
    Case { argv, toml, states }
}

fn expected(o: &Opt, st: (St, usize, usize)) -> String {
    let (s, a, b) = st;
    if o.flag {
        return match s {
            St::Absent => o.default.clone(),
            St::File => o.vals[a].2.clone(),
            St::Cli | St::Both => "true".to_string(),
        };
    }
    match s {
        St::Absent => o.default.clone(),
        St::File => o.vals[a].2.clone(),
        St::Cli | St::Both => o.vals[b].2.clone(),
    }
}

fn build(case: &Case) -> Result<anyhow::Result<TrippyConfig>, String> {
    let args = Args::try_parse_from(&case.argv).map_err(|e| format!("clap rejected {:?}: {}", case.argv, e.to_string().lines().next().unwrap_or("")))?;
    let file: ConfigFile = if case.toml.is_empty() {
        toml::from_str("").map_err(|e| e.to_string())?
    } else {
        match toml::from_str(&case.toml) {
            Ok(f) => f,
            // the text is TOML (a generic parse succeeds) and is made of documented keys with valid
            // values only: the configuration file loader has no business rejecting it
            Err(e) if toml::from_str::<toml::Table>(&case.toml).is_ok() => return Err(format!("FILE-REJECTED: {}", e.to_string().lines().next().unwrap_or(""))),
            Err(e) => return Err(format!("toml rejected: {e}\n{}", case.toml)),
        }
    };
    // has privileges, does not need them: privileged and unprivileged modes are both allowed
    Ok(build_config(args, file, &Privilege::new(true, false), 4242))
}

fn precedence_job(seed: u64, j: usize, tier: Tier) -> Outcome {
    let mut o = Outcome::default();
    let opts = options();
    let mut r = Prng::new(seed ^ (j as u64).wrapping_mul(0x9E37_79B9_7F4A_7C15) ^ 0xC16);
    let per = tier.pick(150, 3000);
    // documented defaults must agree with the table
    if j == 0 {
        let doc = documented_defaults();
        for op in &opts {
            if let Some(v) = doc.get(op.name) {
                o.hit("default_is_the_documented_one");
                // render the documented literal through the same path: give it in the file
                let mut states = BTreeMap::new();
                for x in &opts {
                    states.insert(x.name, (St::Absent, 0usize, 1usize));
                }
                let c = Case { argv: vec!["trip".into(), "example.com".into()], toml: String::new(), states };
                if let Ok(Ok(cfg)) = build(&c) {
                    let got = (op.get)(&cfg);
                    if got != op.default {
                        o.violate("default_is_the_documented_one", op.name, format!("{}: effective default {got:?}, table (from sample config {v:?}) {:?}", op.name, op.default), json!({"option": op.name}));
                    }
                }
            }
        }
    }
    // each option in each state over `per` random backgrounds
    let op = &opts[j % opts.len()];
    for st in [St::Absent, St::File, St::Cli, St::Both] {
        for k in 0..per {
            let case = draw(&mut r, &opts, Some((op.name, st)));
            let replay = json!({"how": format!("vcheck C16 --seed {seed} --only {j}"), "scenario": j, "argv": case.argv, "toml": case.toml, "option_under_test": op.name, "state": format!("{st:?}")});
            let res = guarded(|| build(&case));
            let cfg = match res {
                Err(p) => {
                    o.violate("build_config_never_panics", format!("{}|{}", op.name, p.site()), format!("panic at {}:{}: {}", p.file, p.line, p.message), replay);
                    continue;
                }
                Ok(Err(e)) if e.starts_with("FILE-REJECTED") => {
                    o.hit("config_file_of_documented_keys_is_accepted");
                    o.violate("config_file_of_documented_keys_is_accepted", e.split(':').nth(1).unwrap_or("").trim().chars().take(60).collect::<String>(), format!("a configuration file that only sets documented keys to valid values was rejected by the loader: {e}\n{}", case.toml), replay);
                    continue;
                }
                Ok(Err(e)) => {
                    o.harness_error = Some(format!("case generator produced input the parsers reject: {e}"));
                    continue;
                }
                Ok(Ok(Err(e))) => {
                    // acceptable only if the same background without the option is rejected too
                    let mut bg = Case { argv: case.argv.clone(), toml: case.toml.clone(), states: case.states.clone() };
                    strip(&mut bg, op);
                    o.hit("rejection_only_with_background");
                    match guarded(|| build(&bg)) {
                        Ok(Ok(Ok(_))) => o.violate("rejection_only_with_background", op.name, format!("{:?} state {st:?} rejected ({e}) although the same background without it is accepted", op.name), replay),
                        _ => o.count("backgrounds_rejected", 1),
                    }
                    continue;
                }
                Ok(Ok(Ok(c))) => c,
            };
            // every option of the configuration, not only the one under test
            for x in &opts {
                let want = expected(x, case.states[x.name]);
                let got = (x.get)(&cfg);
                o.hit("effective_value_is_cli_then_file_then_default");
                if got != want {
                    o.violate(
                        "effective_value_is_cli_then_file_then_default",
                        x.name,
                        format!("{}: effective {got:?}, expected {want:?} (state {:?}; option under test {} in state {st:?})", x.name, case.states[x.name].0, op.name),
                        replay.clone(),
                    );
                }
            }
            // the application's own start-up (start_tracer) must hand every resolved value to the
            // tracer (no socket factory is installed on this thread or globally here: the spawned
            // tracer thread ends at once with an error, only the configuration is looked at)
            check_tracer_start(&cfg, &mut o, &replay);
            o.observe("option_state_pairs", format!("{}:{st:?}", op.name));
            if k == 0 && st == St::Both && j < 2 {
                o.sample = Some(json!({"argv": case.argv, "toml": case.toml, "option_under_test": op.name}));
            }
        }
    }
    o.nontrivial = Some(format!("precedence:{}", op.name));
    o
}

/// `start_tracer` is the real function of app.rs (through a hook); the tracer it returns must be
/// configured with the resolved values.
/// The trace identifier of the tracer the application starts at `index` in a process with `pid`.
pub fn started_tracer_identifier(index: usize, pid: u16) -> Result<u16, String> {
    let argv: Vec<String> = ["trip", "example.com"].iter().map(ToString::to_string).collect();
    let case = Case { argv, toml: String::new(), states: BTreeMap::new() };
    let cfg = build(&case)?.map_err(|e| format!("rejected: {e}"))?;
    let target = std::net::IpAddr::V4(std::net::Ipv4Addr::new(10, 200, 0, 1 + index as u8));
    let info = trippy_tui::verif::start_tracer(&cfg, "example.com", target, index, pid).map_err(|e| format!("start_tracer: {e}"))?;
    Ok(info.data.trace_identifier().0)
}

/// The scheduling limits of the tracer the application starts for `trip example.com --first-ttl
/// .. --max-ttl .. --max-inflight ..` (through the application's own `start_tracer`).
pub fn started_tracer_limits(first: u8, max: u8, inflight: u8) -> Result<(u8, u8, u8), String> {
    let argv: Vec<String> = ["trip", "example.com", "--first-ttl", &first.to_string(), "--max-ttl", &max.to_string(), "--max-inflight", &inflight.to_string()].iter().map(ToString::to_string).collect();
    let case = Case { argv, toml: String::new(), states: BTreeMap::new() };
    let cfg = build(&case)?.map_err(|e| format!("rejected: {e}"))?;
    let target = std::net::IpAddr::V4(std::net::Ipv4Addr::new(10, 200, 0, 1));
    let info = trippy_tui::verif::start_tracer(&cfg, "example.com", target, 0, 4242).map_err(|e| format!("start_tracer: {e}"))?;
    let t = &info.data;
    Ok((t.first_ttl().0, t.max_ttl().0, t.max_inflight().0))
}

fn check_tracer_start(cfg: &TrippyConfig, o: &mut Outcome, replay: &serde_json::Value) {
    use std::net::{IpAddr, Ipv4Addr};
    let target = IpAddr::V4(Ipv4Addr::new(10, 200, 0, 1));
    let (index, pid) = (2usize, 4242u16);
    let info = match guarded(|| trippy_tui::verif::start_tracer(cfg, "example.com", target, index, pid)) {
        Ok(Ok(i)) => i,
        Ok(Err(_)) => return, // the builder rejected the configuration: judged in part 2
        Err(p) => {
            o.violate("tracer_started_with_the_resolved_values", format!("panic|{}", p.site()), format!("start_tracer panicked at {}:{}: {}", p.file, p.line, p.message), replay.clone());
            return;
        }
    };
    let t = &info.data;
    o.hit("tracer_started_with_the_resolved_values");
    let pairs: Vec<(&str, String, String)> = vec![
        ("protocol", format!("{:?}", t.protocol()), format!("{:?}", cfg.protocol)),
        ("privilege-mode", format!("{:?}", t.privilege_mode()), format!("{:?}", cfg.privilege_mode)),
        // (Tracer::source_addr() is the address in use once the run has started, not the option)
        ("interface", format!("{:?}", t.interface()), format!("{:?}", cfg.interface.as_deref())),
        ("packet-size", t.packet_size().0.to_string(), cfg.packet_size.to_string()),
        ("payload-pattern", t.payload_pattern().0.to_string(), cfg.payload_pattern.to_string()),
        ("tos", t.tos().0.to_string(), cfg.tos.to_string()),
        ("icmp-extensions", format!("{:?}", t.icmp_extension_parse_mode()), format!("{:?}", cfg.icmp_extension_parse_mode)),
        ("read-timeout", format!("{:?}", t.read_timeout()), format!("{:?}", cfg.read_timeout)),
        ("first-ttl", t.first_ttl().0.to_string(), cfg.first_ttl.to_string()),
        ("max-ttl", t.max_ttl().0.to_string(), cfg.max_ttl.to_string()),
        ("grace-duration", format!("{:?}", t.grace_duration()), format!("{:?}", cfg.grace_duration)),
        ("max-inflight", t.max_inflight().0.to_string(), cfg.max_inflight.to_string()),
        ("initial-sequence", t.initial_sequence().0.to_string(), cfg.initial_sequence.to_string()),
        ("multipath-strategy", format!("{:?}", t.multipath_strategy()), format!("{:?}", cfg.multipath_strategy)),
        ("port-direction", format!("{:?}", t.port_direction()), format!("{:?}", cfg.port_direction)),
        ("min-round-duration", format!("{:?}", t.min_round_duration()), format!("{:?}", cfg.min_round_duration)),
        ("max-round-duration", format!("{:?}", t.max_round_duration()), format!("{:?}", cfg.max_round_duration)),
        ("max-samples", t.max_samples().to_string(), cfg.max_samples.to_string()),
        ("max-flows", t.max_flows().to_string(), cfg.max_flows().to_string()),
        ("max-rounds", format!("{:?}", t.max_rounds().map(|m| m.0.get())), format!("{:?}", cfg.max_rounds)),
        ("target", t.target_addr().to_string(), target.to_string()),
        ("trace-identifier", t.trace_identifier().0.to_string(), trippy_tui::verif::trace_identifier(pid, index).to_string()),
    ];
    for (name, got, want) in pairs {
        if got != want {
            o.violate("tracer_started_with_the_resolved_values", name, format!("the tracer was started with {name} = {got}, the resolved configuration says {want}"), replay.clone());
        }
    }
    // the same for the front end configuration (the application's own make_tui_config)
    let tui = trippy_tui::verif::make_tui_config(cfg, "en".to_string());
    let pairs: Vec<(&str, String, String)> = vec![
        ("tui-refresh-rate", format!("{:?}", tui.refresh_rate), format!("{:?}", cfg.tui_refresh_rate)),
        ("tui-privacy-max-ttl", format!("{:?}", tui.privacy_max_ttl), format!("{:?}", cfg.tui_privacy_max_ttl)),
        ("tui-preserve-screen", tui.preserve_screen.to_string(), cfg.tui_preserve_screen.to_string()),
        ("tui-address-mode", format!("{:?}", tui.address_mode), format!("{:?}", cfg.tui_address_mode)),
        ("dns-lookup-as-info", tui.lookup_as_info.to_string(), cfg.dns_lookup_as_info.to_string()),
        ("tui-as-mode", format!("{:?}", tui.as_mode), format!("{:?}", cfg.tui_as_mode)),
        ("tui-icmp-extension-mode", format!("{:?}", tui.icmp_extension_mode), format!("{:?}", cfg.tui_icmp_extension_mode)),
        ("tui-geoip-mode", format!("{:?}", tui.geoip_mode), format!("{:?}", cfg.tui_geoip_mode)),
        ("tui-max-addrs", format!("{:?}", tui.max_addrs), format!("{:?}", cfg.tui_max_addrs)),
        ("geoip-mmdb-file", format!("{:?}", tui.geoip_mmdb_file), format!("{:?}", cfg.geoip_mmdb_file)),
        ("tui-timezone", format!("{:?}", tui.timezone), format!("{:?}", cfg.tui_timezone)),
        ("tui-custom-columns", format!("{}", tui.tui_columns), cfg.tui_custom_columns.0.iter().map(|x| format!("{x}")).collect::<String>()),
    ];
    for (name, got, want) in pairs {
        if got != want {
            o.violate("tracer_started_with_the_resolved_values", format!("tui|{name}"), format!("the front end was configured with {name} = {got}, the resolved configuration says {want}"), replay.clone());
        }
    }
}


// ------------------------------------------------------------------------------------------------
// the two "map" options: theme colours and key bindings are resolved per item

const THEME_FIELDS: &str = "bg border text tab_text hops_table_header_bg hops_table_header_text hops_table_row_active_text hops_table_row_inactive_text hops_chart_selected hops_chart_unselected hops_chart_axis frequency_chart_bar frequency_chart_text flows_chart_bar_selected flows_chart_bar_unselected flows_chart_text_current flows_chart_text_non_current samples_chart samples_chart_lost help_dialog_bg help_dialog_text settings_dialog_bg settings_tab_text settings_table_header_text settings_table_header_bg settings_table_row_text map_world map_radius map_selected map_info_panel_border map_info_panel_bg map_info_panel_text info_bar_bg info_bar_text";
const BINDING_FIELDS: &str = "toggle_help toggle_help_alt toggle_settings toggle_settings_tui toggle_settings_trace toggle_settings_dns toggle_settings_geoip toggle_settings_bindings toggle_settings_theme toggle_settings_columns previous_hop next_hop previous_trace next_trace previous_hop_address next_hop_address address_mode_ip address_mode_host address_mode_both toggle_freeze toggle_chart toggle_map toggle_flows expand_privacy contract_privacy expand_hosts contract_hosts expand_hosts_max contract_hosts_min chart_zoom_in chart_zoom_out clear_trace_data clear_dns_cache clear_selection toggle_as_info toggle_hop_details quit quit_preserve_screen";

fn theme_values(c: &TrippyConfig) -> BTreeMap<String, String> {
    let t = &c.tui_theme;
    macro_rules! f {
        ($($n:ident),*) => { vec![$((stringify!($n), format!("{:?}", t.$n))),*] };
    }
    let v = f!(
        bg, border, text, tab_text, hops_table_header_bg, hops_table_header_text, hops_table_row_active_text, hops_table_row_inactive_text, hops_chart_selected, hops_chart_unselected, hops_chart_axis,
        frequency_chart_bar, frequency_chart_text, flows_chart_bar_selected, flows_chart_bar_unselected, flows_chart_text_current, flows_chart_text_non_current, samples_chart, samples_chart_lost,
        help_dialog_bg, help_dialog_text, settings_dialog_bg, settings_tab_text, settings_table_header_text, settings_table_header_bg, settings_table_row_text, map_world, map_radius, map_selected,
        map_info_panel_border, map_info_panel_bg, map_info_panel_text, info_bar_bg, info_bar_text
    );
    v.into_iter().map(|(k, x)| (format!("{}-color", k.replace('_', "-")), x)).collect()
}

fn binding_values(c: &TrippyConfig) -> BTreeMap<String, String> {
    let t = &c.tui_bindings;
    macro_rules! f {
        ($($n:ident),*) => { vec![$((stringify!($n), format!("{}", t.$n))),*] };
    }
    let v = f!(
        toggle_help, toggle_help_alt, toggle_settings, toggle_settings_tui, toggle_settings_trace, toggle_settings_dns, toggle_settings_geoip, toggle_settings_bindings, toggle_settings_theme,
        toggle_settings_columns, previous_hop, next_hop, previous_trace, next_trace, previous_hop_address, next_hop_address, address_mode_ip, address_mode_host, address_mode_both, toggle_freeze,
        toggle_chart, toggle_map, toggle_flows, expand_privacy, contract_privacy, expand_hosts, contract_hosts, expand_hosts_max, contract_hosts_min, chart_zoom_in, chart_zoom_out, clear_trace_data,
        clear_dns_cache, clear_selection, toggle_as_info, toggle_hop_details, quit, quit_preserve_screen
    );
    v.into_iter().map(|(k, x)| (k.replace('_', "-"), x)).collect()
}

/// Every theme item and every key binding in the four states, all at once per case.
fn map_options_job(seed: u64, j: usize) -> Outcome {
    let mut o = Outcome::default();
    let mut r = Prng::new(seed ^ (j as u64).wrapping_mul(0x9E37_79B9_7F4A_7C15) ^ 0x7E3);
    let replay = json!({"how": format!("vcheck C16 --seed {seed} --only m{j}"), "scenario": format!("m{j}")});
    let empty = Case { argv: vec!["trip".into(), "example.com".into()], toml: String::new(), states: BTreeMap::new() };
    let Ok(Ok(base)) = build(&empty) else {
        o.harness_error = Some("baseline configuration rejected".into());
        return o;
    };
    let (base_theme, base_bind) = (theme_values(&base), binding_values(&base));
    // documented defaults of the theme (names as rendered by Debug)
    let doc = documented_defaults();
    let colours = [("red", "Red"), ("blue", "Blue"), ("cyan", "Cyan"), ("magenta", "Magenta"), ("yellow", "Yellow"), ("green", "Green"), ("white", "White"), ("black", "Black"), ("gray", "Gray"), ("darkgray", "DarkGray"), ("lightgreen", "LightGreen")];
    for (k, v) in &base_theme {
        if let Some(d) = doc.get(k) {
            if let Some((_, dbg)) = colours.iter().find(|(n, _)| n == d) {
                o.hit("default_is_the_documented_one");
                if dbg != v {
                    o.violate("default_is_the_documented_one", k.clone(), format!("{k}: default {v}, documented {d}"), replay.clone());
                }
            }
        }
    }
    let keys = "abcdefghijklmnopqrstuvwxyz0123456789./";
    let theme_items: Vec<String> = THEME_FIELDS.split(' ').map(|f| format!("{}-color", f.replace('_', "-"))).collect();
    let bind_items: Vec<String> = BINDING_FIELDS.split(' ').map(|f| f.replace('_', "-")).collect();
    for _ in 0..20 {
        let (mut cli_t, mut file_t, mut cli_b, mut file_b) = (Vec::new(), Vec::new(), Vec::new(), Vec::new());
        let mut want_t = base_theme.clone();
        let mut want_b = base_bind.clone();
        for it in &theme_items {
            let a = r.below(9) as usize;
            let b = (a + 1 + r.below(8) as usize) % 9;
            match r.below(4) {
                0 => {}
                1 => {
                    file_t.push(format!("{it} = \"{}\"", colours[a].0));
                    want_t.insert(it.clone(), colours[a].1.to_string());
                }
                2 => {
                    cli_t.push(format!("{it}={}", colours[b].0));
                    want_t.insert(it.clone(), colours[b].1.to_string());
                }
                _ => {
                    file_t.push(format!("{it} = \"{}\"", colours[a].0));
                    cli_t.push(format!("{it}={}", colours[b].0));
                    want_t.insert(it.clone(), colours[b].1.to_string());
                }
            }
        }
        for (n, it) in bind_items.iter().enumerate() {
            let c = &keys[n..=n];
            match r.below(4) {
                0 => {}
                1 => {
                    file_b.push(format!("{it} = \"alt+{c}\""));
                    want_b.insert(it.clone(), format!("alt+{c}"));
                }
                2 => {
                    cli_b.push(format!("{it}=super+{c}"));
                    want_b.insert(it.clone(), format!("super+{c}"));
                }
                _ => {
                    file_b.push(format!("{it} = \"alt+{c}\""));
                    cli_b.push(format!("{it}=super+{c}"));
                    want_b.insert(it.clone(), format!("super+{c}"));
                }
            }
        }
        let mut argv: Vec<String> = vec!["trip".into(), "example.com".into()];
        if !cli_t.is_empty() {
            argv.extend(["--tui-theme-colors".to_string(), cli_t.join(",")]);
        }
        if !cli_b.is_empty() {
            argv.extend(["--tui-key-bindings".to_string(), cli_b.join(",")]);
        }
        let mut toml = String::new();
        if !file_t.is_empty() {
            toml.push_str(&format!("[theme-colors]\n{}\n", file_t.join("\n")));
        }
        if !file_b.is_empty() {
            toml.push_str(&format!("[bindings]\n{}\n", file_b.join("\n")));
        }
        let case = Case { argv, toml, states: BTreeMap::new() };
        let cfg = match build(&case) {
            Ok(Ok(c)) => c,
            Ok(Err(e)) => {
                o.violate("rejection_only_with_background", "theme-colors/bindings", format!("a configuration of theme colours and unique key bindings was rejected: {e} ({:?})", case.argv), replay.clone());
                continue;
            }
            Err(e) => {
                o.harness_error = Some(e);
                return o;
            }
        };
        for (kind, got, want) in [("tui-theme-colors", theme_values(&cfg), &want_t), ("tui-key-bindings", binding_values(&cfg), &want_b)] {
            for (k, w) in want {
                o.hit("effective_value_is_cli_then_file_then_default");
                let g = got.get(k).cloned().unwrap_or_default();
                if &g != w {
                    o.violate("effective_value_is_cli_then_file_then_default", format!("{kind}:{k}"), format!("{kind} item {k}: effective {g:?}, expected {w:?} (argv {:?})", case.argv), replay.clone());
                }
            }
        }
    }
    o.nontrivial = Some(format!("map-options#{j}"));
    o
}

/// Documented cross-option rules: the unsupported combination must be rejected whichever layer
/// (file or command line) supplies each of the two options.
fn rules_job(seed: u64) -> Outcome {
    let mut o = Outcome::default();
    let replay = json!({"how": format!("vcheck C16 --seed {seed} --only rules"), "scenario": "rules"});
    // (name, option a: (section, key, toml value, cli args), option b likewise, extra cli args)
    type OptSpec = (&'static str, &'static str, &'static str, Vec<&'static str>);
    let rules: Vec<(&'static str, OptSpec, OptSpec, Vec<&'static str>)> = vec![
        ("unprivileged excludes paris", ("trippy", "unprivileged", "true", vec!["--unprivileged"]), ("strategy", "multipath-strategy", "\"paris\"", vec!["--multipath-strategy", "paris"]), vec!["--udp"]),
        ("unprivileged excludes dublin", ("trippy", "unprivileged", "true", vec!["--unprivileged"]), ("strategy", "multipath-strategy", "\"dublin\"", vec!["--multipath-strategy", "dublin"]), vec!["--udp"]),
        ("paris needs udp (icmp)", ("strategy", "protocol", "\"icmp\"", vec!["--protocol", "icmp"]), ("strategy", "multipath-strategy", "\"paris\"", vec!["--multipath-strategy", "paris"]), vec![]),
        ("dublin needs udp (tcp)", ("strategy", "protocol", "\"tcp\"", vec!["--protocol", "tcp"]), ("strategy", "multipath-strategy", "\"dublin\"", vec!["--multipath-strategy", "dublin"]), vec![]),
        ("as lookups need a resolver other than system", ("dns", "dns-lookup-as-info", "true", vec!["--dns-lookup-as-info"]), ("dns", "dns-resolve-method", "\"system\"", vec!["--dns-resolve-method", "system"]), vec![]),
    ];
    for (name, a, b, extra) in &rules {
        for la in 0..2 {
            for lb in 0..2 {
                let mut argv: Vec<String> = vec!["trip".into(), "example.com".into()];
                argv.extend(extra.iter().map(|s| (*s).to_string()));
                let mut sections: BTreeMap<&str, Vec<String>> = BTreeMap::new();
                for (layer, opt) in [(la, a), (lb, b)] {
                    if layer == 0 {
                        sections.entry(opt.0).or_default().push(format!("{} = {}", opt.1, opt.2));
                    } else {
                        argv.extend(opt.3.iter().map(|s| (*s).to_string()));
                    }
                }
                let toml: String = sections.iter().map(|(s, l)| format!("[{s}]\n{}\n", l.join("\n"))).collect();
                let case = Case { argv, toml, states: BTreeMap::new() };
                o.hit("unsupported_combination_rejected_up_front");
                match build(&case) {
                    Ok(Err(_)) => {}
                    Ok(Ok(_)) => o.violate(
                        "unsupported_combination_rejected_up_front",
                        format!("{name}|{}+{}", ["file", "cli"][la], ["file", "cli"][lb]),
                        format!("{name}: accepted with {} from the {} and {} from the {} (argv {:?}, file {:?})", a.1, ["file", "command line"][la], b.1, ["file", "command line"][lb], case.argv, case.toml),
                        replay.clone(),
                    ),
                    Err(e) => o.harness_error = Some(e),
                }
            }
        }
    }
    o.nontrivial = Some("rules".to_string());
    o
}

fn strip(case: &mut Case, op: &Opt) {
    let flag = format!("--{}", op.name);
    if let Some(i) = case.argv.iter().position(|a| *a == flag) {
        case.argv.remove(i);
        if !op.flag && i < case.argv.len() {
            case.argv.remove(i);
        }
    }
    let key = format!("{} = ", op.name);
    case.toml = case.toml.lines().filter(|l| !l.starts_with(&key)).collect::<Vec<_>>().join("\n");
}

/// Derived fields: protocol shortcuts, -4 / -6, port direction, max rounds.
fn derived_job(seed: u64, j: usize, tier: Tier) -> Outcome {
    let mut o = Outcome::default();
    let mut r = Prng::new(seed ^ (j as u64) << 9 ^ 0xD16);
    for _ in 0..tier.pick(200, 5000) {
        let mut argv: Vec<String> = vec!["trip".into(), "example.com".into()];
        let mut toml = String::new();
        // protocol: shortcut flag beats file
        let file_proto = *r.pick(&[None, Some("icmp"), Some("udp"), Some("tcp")]);
        let short = *r.pick(&[None, Some("udp"), Some("tcp"), Some("icmp")]);
        let cli_proto = if short.is_none() { *r.pick(&[None, Some("udp"), Some("tcp"), Some("icmp")]) } else { None };
        let mut strat = String::new();
        if let Some(p) = file_proto {
            strat.push_str(&format!("protocol = \"{p}\"\n"));
        }
        if let Some(s) = short {
            argv.push(format!("--{s}"));
        }
        if let Some(p) = cli_proto {
            argv.extend(["--protocol".to_string(), p.to_string()]);
        }
        let proto = short.or(cli_proto).or(file_proto).unwrap_or("icmp");
        // address family
        let fam_flag = *r.pick(&[None, Some("-4"), Some("-6")]);
        let fam_file = *r.pick(&[None, Some("ipv6"), Some("system")]);
        if let Some(f) = fam_flag {
            argv.push(f.to_string());
        }
        if let Some(f) = fam_file {
            strat.push_str(&format!("addr-family = \"{f}\"\n"));
        }
        let want_fam = match (fam_flag, fam_file) {
            (Some("-4"), _) => "Ipv4Only",
            (Some("-6"), _) => "Ipv6Only",
            (_, Some("ipv6")) => "Ipv6Only",
            (_, Some("system")) => "System",
            _ => "Ipv4thenIpv6",
        };
        // ports
        let sp = if r.chance(1, 2) { Some(r.range(1024, 65_000) as u16) } else { None };
        let tp = if r.chance(1, 2) { Some(r.range(1, 65_000) as u16) } else { None };
        let strategy = if proto == "udp" { *r.pick(&["classic", "paris", "dublin"]) } else { "classic" };
        if strategy != "classic" {
            argv.extend(["--multipath-strategy".to_string(), strategy.to_string()]);
        }
        if let Some(p) = sp {
            if r.chance(1, 2) {
                argv.extend(["--source-port".to_string(), p.to_string()]);
            } else {
                strat.push_str(&format!("source-port = {p}\n"));
            }
        }
        if let Some(p) = tp {
            if r.chance(1, 2) {
                argv.extend(["--target-port".to_string(), p.to_string()]);
            } else {
                strat.push_str(&format!("target-port = {p}\n"));
            }
        }
        // mode / report cycles -> max rounds; each of the two comes from the command line, from the
        // file ([trippy] mode, [report] report-cycles) or from both with the command line winning
        let mode_cli = *r.pick(&[None, Some("stream"), Some("json"), Some("silent"), Some("pretty")]);
        let mode_file = *r.pick(&[None, None, Some("stream"), Some("json"), Some("csv"), Some("tui")]);
        let cycles_cli = if r.chance(1, 2) { Some(r.range(1, 50) as usize) } else { None };
        let cycles_file = if r.chance(1, 3) { Some(r.range(1, 50) as usize) } else { None };
        let mode = mode_cli.or(mode_file).filter(|m| *m != "tui");
        let cycles = cycles_cli.or(cycles_file);
        if let Some(m) = mode_cli {
            argv.extend(["--mode".to_string(), m.to_string()]);
        }
        if let Some(c) = cycles_cli {
            argv.extend(["--report-cycles".to_string(), c.to_string()]);
        }
        if let Some(m) = mode_file {
            toml.push_str(&format!("[trippy]\nmode = \"{m}\"\n"));
        }
        if let Some(c) = cycles_file {
            toml.push_str(&format!("[report]\nreport-cycles = {c}\n"));
        }
        if !strat.is_empty() {
            toml.push_str(&format!("[strategy]\n{strat}"));
        }
        let want_ports: Result<String, ()> = match (proto, sp, tp) {
            ("icmp", _, _) => Ok("None".to_string()),
            ("udp", None, None) => Ok(format!("{:?}", PortDirection::new_fixed_src(4242))),
            ("tcp", None, None) => Ok(format!("{:?}", PortDirection::new_fixed_dest(80))),
            (_, Some(s), None) => Ok(format!("{:?}", PortDirection::new_fixed_src(s))),
            (_, None, Some(t)) => Ok(format!("{:?}", PortDirection::new_fixed_dest(t))),
            ("udp", Some(s), Some(t)) if strategy != "classic" => Ok(format!("{:?}", PortDirection::new_fixed_both(s, t))),
            _ => Err(()),
        };
        let want_rounds = match mode {
            None | Some("stream") => "None".to_string(),
            _ => format!("Some({})", cycles.unwrap_or(10)),
        };
        let case = Case { argv: argv.clone(), toml: toml.clone(), states: BTreeMap::new() };
        let replay = json!({"how": format!("vcheck C16 --seed {seed} --only d{j}"), "scenario": format!("d{j}"), "argv": argv, "toml": toml});
        match guarded(|| build(&case)) {
            Err(p) => o.violate("build_config_never_panics", format!("derived|{}", p.site()), format!("panic at {}:{}: {}", p.file, p.line, p.message), replay),
            Ok(Err(e)) => o.harness_error = Some(e),
            Ok(Ok(Err(e))) => {
                o.hit("derived_fields");
                if want_ports.is_ok() {
                    o.violate("derived_fields", "rejected", format!("rejected ({e}) although every option is valid"), replay);
                } else {
                    o.count("both_ports_rejected_as_documented", 1);
                }
            }
            Ok(Ok(Ok(cfg))) => {
                o.hit("derived_fields");
                let got = (format!("{:?}", cfg.protocol).to_lowercase(), format!("{:?}", cfg.addr_family), format!("{:?}", cfg.port_direction), format!("{:?}", cfg.max_rounds));
                let want = (proto.to_string(), want_fam.to_string(), want_ports.clone().unwrap_or_else(|()| "<rejected>".into()), want_rounds.clone());
                if got != want {
                    let f = if got.0 != want.0 { "protocol" } else if got.1 != want.1 { "addr_family" } else if got.2 != want.2 { "port_direction" } else { "max_rounds" };
                    o.violate("derived_fields", f, format!("derived {got:?}, expected {want:?}"), replay);
                }
            }
        }
    }
    o.nontrivial = Some(format!("derived:{j}"));
    o
}

// ------------------------------------------------------------------------------------------------
// part 2: accepted configurations can run

fn run_builder(b: Builder, v6: bool, network: u64, o: &mut Outcome, site: &str, replay: &serde_json::Value) {
    let target: IpAddr = if v6 { scen::target_v6().into() } else { scen::TARGET_V4.into() };
    let mk = |i: usize| {
        let mut s = HopSpec::simple(scen::hop_addr(v6, i, 0), 300_000);
        s.quote = Quote::Full;
        s
    };
    let mut t = HopSpec::simple(target, 500_000);
    t.quote = Quote::Full;
    let mut topo = Topology { hops: vec![mk(0), mk(1)], target: t, tcp: TcpMode::Rst };
    // "against a network": mostly a friendly one, sometimes a hostile one - an error value is
    // an acceptable outcome there, a panic is not
    let mut wcfg0 = world_cfg(topo.clone(), 7);
    match network {
        0 => wcfg0.faults.bind_in_use_pct = 100, // every local port is in use
        1 => {
            // nothing answers
            for h in &mut topo.hops {
                h.behaviour = crate::world::Behaviour::Silent;
            }
            topo.target.behaviour = crate::world::Behaviour::Silent;
            topo.tcp = TcpMode::Silent;
            wcfg0.topo = topo.clone();
        }
        2 => wcfg0.faults.send_fails_for_ttl = Some((2, libc::EHOSTUNREACH)),
        3 => {
            topo.tcp = TcpMode::Fails(libc::ETIMEDOUT);
            wcfg0.topo = topo.clone();
        }
        _ => {}
    }
    o.observe("networks", ["every-port-in-use", "silent", "send-fails-for-one-ttl", "tcp-connect-fails", "friendly"][network.min(4) as usize]);
    let res = guarded(|| -> Result<Option<String>, String> {
        let tracer = match b.build() {
            Ok(t) => t,
            Err(e) => return Ok(Some(format!("{e}"))),
        };
        let world = World::new(wcfg0.clone());
        let run = run_tracer(&world, 0, &tracer, &RunOpts { snapshots: false });
        // query the state the way the front end does
        let s = tracer.snapshot();
        let _ = s.hops().len() + s.target_hop(trippy_core::State::default_flow_id()).ttl() as usize;
        Ok(run.result.err())
    });
    o.hit("accepted_configuration_runs_without_panic");
    match res {
        Ok(Ok(None)) => o.count("runs_ok", 1),
        Ok(Ok(Some(_))) => o.count("rejected_or_error_value", 1),
        Ok(Err(e)) => o.harness_error = Some(e),
        Err(p) if p.in_repo() => o.violate("accepted_configuration_runs_without_panic", format!("{site}|{}", p.site()), format!("panic at {}:{}: {}", p.file, p.line, p.message), replay.clone()),
        Err(p) => o.harness_error = Some(format!("harness panic {}:{} {}", p.file, p.line, p.message)),
    }
}

fn long_run_job(seed: u64, i: usize, cells: &[scen::Cell], tier: Tier) -> Outcome {
    let mut o = Outcome::default();
    let cell = cells[i % cells.len()];
    let silent = i / cells.len() == 1;
    let mut r = Prng::new(seed ^ (i as u64).wrapping_mul(0x9E37_79B9_7F4A_7C15) ^ 0x10_46);
    let mut tcfg = cell.trace_cfg();
    tcfg.max_rounds = Some(tier.pick(150, 600));
    tcfg.min_round = Duration::from_millis(30);
    tcfg.max_round = Duration::from_millis(30);
    tcfg.grace = Duration::from_millis(1);
    tcfg.read_timeout = Duration::from_millis(1);
    tcfg.tcp_connect_timeout = Duration::from_millis(30);
    tcfg.max_ttl = 30;
    tcfg.initial_sequence = *r.pick(&[33434u16, 0, 20_000, 60_000]);
    let site = format!("long-run/{}", cell.name());
    let replay = json!({"how": format!("vcheck C16 --seed {seed}"), "scenario": format!("long{i}"), "config": format!("{tcfg:?}"), "network": if silent { "silent" } else { "friendly" }});
    run_builder(tcfg.builder(), cell.v6, if silent { 1 } else { 4 }, &mut o, &site, &replay);
    o.count("long_runs", 1);
    o.nontrivial = Some(format!("{site}|{silent}"));
    o
}

fn builder_alone_job(seed: u64, j: usize, tier: Tier) -> Outcome {
    let mut o = Outcome::default();
    let mut r = Prng::new(seed ^ (j as u64) << 11 ^ 0xB16);
    let protos = [Protocol::Icmp, Protocol::Udp, Protocol::Tcp];
    let strats = [MultipathStrategy::Classic, MultipathStrategy::Paris, MultipathStrategy::Dublin];
    // the full categorical product: protocol x strategy x ports x privilege x family x ext = 288
    let idx = j % 288;
    let protocol = protos[idx % 3];
    let strategy = strats[(idx / 3) % 3];
    let ports_k = (idx / 9) % 4;
    let unpriv = (idx / 36) % 2 == 1;
    let v6 = (idx / 72) % 2 == 1;
    let ext = (idx / 144) % 2 == 1;
    let ports = match ports_k {
        0 => PortDirection::None,
        1 => PortDirection::FixedSrc(Port(5000)),
        2 => PortDirection::FixedDest(Port(33_500)),
        _ => PortDirection::FixedBoth(Port(5000), Port(33_500)),
    };
    let boundary = j < 288 * 4;
    let pick_u8 = |r: &mut Prng, b: &[u8]| if boundary || r.chance(1, 2) { *r.pick(b) } else { r.below(256) as u8 };
    let first_ttl = pick_u8(&mut r, &[1, 1, 0, 2, 254, 255]);
    let max_ttl = pick_u8(&mut r, &[64, 8, 0, 1, 254, 255]);
    let inflight = pick_u8(&mut r, &[24, 0, 1, 255]);
    let seq = if boundary || r.chance(1, 2) { *r.pick(&[33434u16, 0, 64_511, 64_512, 65_535]) } else { r.below(65_536) as u16 };
    let size = if boundary || r.chance(1, 2) { *r.pick(&[84u16, 104, 0, 27, 28, 47, 48, 1024, 1025, 65_535]) } else { r.below(1100) as u16 };
    let target: IpAddr = if v6 { scen::target_v6().into() } else { scen::TARGET_V4.into() };
    // (one job in six - every other Dublin / IPv6 job - runs long enough for the sequence numbers
    // to go round: "can run" is not only about the first rounds)
    let long = r.chance(1, 6) || (protocol == Protocol::Udp && strategy == MultipathStrategy::Dublin && v6 && r.chance(1, 2));
    // (Dublin adds the round number to a port: from the highest accepted initial sequence the sum
    // passes 65535 after 1025 rounds - half of those jobs run that long)
    let very_long = protocol == Protocol::Udp && strategy == MultipathStrategy::Dublin && (64_000..=64_511).contains(&seq) && r.chance(1, 2);
    let b = Builder::new(target)
        .protocol(protocol)
        .multipath_strategy(strategy)
        .port_direction(ports)
        .privilege_mode(if unpriv { PrivilegeMode::Unprivileged } else { PrivilegeMode::Privileged })
        .icmp_extension_parse_mode(if ext { IcmpExtensionParseMode::Enabled } else { IcmpExtensionParseMode::Disabled })
        .first_ttl(first_ttl)
        .max_ttl(max_ttl)
        .max_inflight(inflight)
        .initial_sequence(seq)
        .packet_size(size)
        .payload_pattern(r.below(256) as u8)
        .tos(r.below(256) as u8)
        .trace_identifier(r.below(65_536) as u16)
        .max_rounds(Some(if very_long { 1100 } else if long { 120 } else { 3 }))
        .min_round_duration(Duration::from_millis(*r.pick(&[0u64, 20, 50])))
        .max_round_duration(Duration::from_millis(*r.pick(&[20u64, 50, 10])))
        .grace_duration(Duration::from_millis(*r.pick(&[0u64, 5, 100])))
        .read_timeout(Duration::from_millis(*r.pick(&[1u64, 10])))
        .tcp_connect_timeout(Duration::from_millis(50))
        .max_samples(*r.pick(&[0usize, 1, 256]))
        .max_flows(*r.pick(&[0usize, 1, 64]));
    let site = format!("builder/{protocol}/{strategy}/{}", ["none", "fsrc", "fdst", "fboth"][ports_k]);
    let replay = json!({"how": format!("vcheck C16 --seed {seed} --only b{j}"), "scenario": format!("b{j}"), "builder": format!("{b:?}")});
    // (long runs: half of them over a network where nothing answers, so that every round sends
    // a whole window of probes)
    let network = if long && r.chance(1, 2) { 1 } else { r.below(10) };
    run_builder(b, v6, network, &mut o, &site, &replay);
    o.observe("builder_categories", format!("{protocol}/{strategy}/{}/{}/{}", ["none", "fsrc", "fdst", "fboth"][ports_k], if unpriv { "unpriv" } else { "priv" }, if v6 { "v6" } else { "v4" }));
    o.nontrivial = Some(format!("{site}|{unpriv}|{v6}|{ext}|{first_ttl}|{max_ttl}|{inflight}|{seq}|{size}"));
    o
}

fn cli_then_builder_job(seed: u64, j: usize, tier: Tier) -> Outcome {
    let mut o = Outcome::default();
    let opts = options();
    let mut r = Prng::new(seed ^ (j as u64) << 13 ^ 0xCB16);
    for _ in 0..tier.pick(20, 200) {
        let case = draw(&mut r, &opts, None);
        let Ok(Ok(Ok(cfg))) = guarded(|| build(&case)) else { continue };
        let v6 = matches!(format!("{:?}", cfg.addr_family).as_str(), "Ipv6Only" | "Ipv6thenIpv4");
        let target: IpAddr = if v6 { scen::target_v6().into() } else { scen::TARGET_V4.into() };
        // a source address that is not the host's is rejected when the tracer starts (an error
        // value): use the configuration's other fields as they are
        let b = builder_for(&cfg, target, 0, 4242).max_rounds(Some(3)).min_round_duration(Duration::from_millis(30)).max_round_duration(Duration::from_millis(30)).source_addr(None).interface(None::<String>);
        let replay = json!({"how": format!("vcheck C16 --seed {seed} --only c{j}"), "scenario": format!("c{j}"), "argv": case.argv, "toml": case.toml});
        let network = r.below(10);
        run_builder(b, v6, network, &mut o, &format!("cli/{:?}/{:?}", cfg.protocol, cfg.multipath_strategy), &replay);
        o.observe("cli_accepted_shapes", format!("{:?}/{:?}/{:?}/{:?}", cfg.protocol, cfg.multipath_strategy, cfg.privilege_mode, cfg.addr_family));
    }
    o.nontrivial = Some(format!("cli-then-builder:{j}"));
    o
}

pub fn run(tier: Tier, seed: u64, only: Option<String>) -> i32 {
    let mut rep = Report::new("C16", "exploration", tier, seed);
    rep.rule = "part 1: configurations are drawn with each of 41 options independently absent / in the file / on the command line / both with different values (real clap parser, real TOML parser, real build_config through a hook), repaired only in the background to respect the documented cross-option rules; every option is forced through all four states over 5 (thorough 500) backgrounds and EVERY option of every accepted configuration is compared with CLI > file > documented default; a rejection is re-tested without the option; the two per-item options (34 theme colours, 38 key bindings) are drawn item by item in the same four states and compared item by item; the documented cross-option rules (unprivileged excludes paris / dublin, paris / dublin need udp, AS lookups need a resolver other than system) must reject the combination whichever layer supplies each option; derived fields (protocol shortcuts, -4/-6, port direction, max rounds from mode and report cycles) are modelled explicitly; every accepted configuration is also handed to the application's own start_tracer and make_tui_config (hooks that call the real functions) and the tracer / front end configuration they produce must carry every resolved value; part 2: every configuration accepted by the CLI layer goes through the same builder chain as start_tracer (hook) and runs 3 rounds over a simulated 3-hop path (six in ten friendly, the others: every local port in use, nothing answers, sends failing for one ttl, TCP connection attempts failing); the full categorical product protocol x strategy x port direction x privilege x family x extension mode (288) with boundary numerics (first/max ttl 0,1,254,255; inflight 0,1,255; sequence 0,64511,64512,65535; packet size 0..65535) goes through Builder::build alone: either build() returns an error or the run returns without panicking; distinct by (option | derived shard | builder parameters)".into();
    rep.assumptions = vec![
        "documented defaults are taken from trippy-config-sample.toml and the constants documented in --help".into(),
        "boolean flags cannot be switched off from the command line: 'both' means file=false, command line on".into(),
        "a run that ends with an error value (e.g. invalid packet size reported when the first probe is dispatched) is not a crash".into(),
    ];
    rep.required_clauses = vec!["effective_value_is_cli_then_file_then_default", "derived_fields", "accepted_configuration_runs_without_panic", "default_is_the_documented_one", "tracer_started_with_the_resolved_values", "unsupported_combination_rejected_up_front"];
    let n_opts = options().len();
    let n_derived = tier.pick(8, 32);
    let n_builder = 288 * tier.pick(16, 80);
    let n_cli = tier.pick(64, 256);
    let n_map = tier.pick(16, 400);
    match only {
        Some(s) if s.starts_with('d') => rep.merge(derived_job(seed, s[1..].parse().unwrap_or(0), tier)),
        Some(s) if s.starts_with('b') => {
            let o = builder_alone_job(seed, s[1..].parse().unwrap_or(0), tier);
            for v in o.violations.iter().take(5) {
                println!("{}: {}", v.signature(), v.detail);
            }
            rep.merge(o);
        }
        Some(s) if s.starts_with('c') => rep.merge(cli_then_builder_job(seed, s[1..].parse().unwrap_or(0), tier)),
        Some(s) if s == "rules" => {
            let o = rules_job(seed);
            for v in o.violations.iter().take(20) {
                println!("{}: {}", v.signature(), v.detail);
            }
            rep.merge(o);
        }
        Some(s) if s.starts_with('m') => {
            let o = map_options_job(seed, s[1..].parse().unwrap_or(0));
            for v in o.violations.iter().take(5) {
                println!("{}: {}", v.signature(), v.detail);
            }
            rep.merge(o);
        }
        Some(s) => {
            let o = precedence_job(seed, s.parse().unwrap_or(0), tier);
            for v in o.violations.iter().take(5) {
                println!("{}: {}", v.signature(), v.detail);
            }
            rep.merge(o);
        }
        None => {
            rep.merge(rules_job(seed));
            rep.run_parallel(n_opts + n_derived + n_builder + n_cli + n_map, |i| {
            if i >= n_opts + n_derived + n_builder + n_cli {
                map_options_job(seed, i - n_opts - n_derived - n_builder - n_cli)
            } else if i < n_opts {
                precedence_job(seed, i, tier)
            } else if i < n_opts + n_derived {
                derived_job(seed, i - n_opts, tier)
            } else if i < n_opts + n_derived + n_builder {
                builder_alone_job(seed, i - n_opts - n_derived, tier)
            } else {
                cli_then_builder_job(seed, i - n_opts - n_derived - n_builder, tier)
            }
        });
            // "can run" for longer than the first rounds: every accepted cell for 150 rounds
            // (thorough: 600) over a friendly and over a silent network, so that the sequence
            // numbers go round in both regimes
            let cells = scen::all_cells(true);
            rep.run_parallel(cells.len() * 2, |i| long_run_job(seed, i, &cells, tier));
        }
    }
    rep.finish()
}
