//! C17 - the terminal UI never crashes, whatever the trace, keys or window size.
//! C18 - hop privacy: hidden hops never reach the screen.
//! (one shared session driver, two reports)
use crate::framework::{guarded, Outcome, Report, Tier};
use crate::prng::Prng;
use crate::scen::{self, world_cfg};
use crate::sim::{run_tracer, RunOpts};
use crate::synth;
use crate::tui::{all_keys, targets_for, Secrets, Session, TuiSetup};
use crate::world::{HopSpec, Quote, TcpMode, Topology, World};
use serde_json::{json, Value};
use std::collections::BTreeSet;
use std::net::{IpAddr, Ipv4Addr};
use std::time::{Duration, SystemTime};
use trippy_core::verif::probe_new;
use trippy_core::{
    CompletionReason, Extension, Extensions, Flags, FlowId, IcmpPacketType, MplsLabelStack, MplsLabelStackMember, MultipathStrategy, Port, ProbeStatus, Protocol, Round, RoundId, Sequence, State,
    TimeToLive, TraceId,
};
use trippy_tui::verif::{settings_tabs, SETTINGS_TAB_COLUMNS};

#[derive(Clone, Copy, PartialEq, Eq)]
pub enum Which {
    Crash,
    Privacy,
}

/// A hop address: distinctive octets so that no literal is a substring of another or of a number.
pub fn addr_of(hop: usize, branch: usize) -> IpAddr {
    IpAddr::V4(Ipv4Addr::new(10, 131 + (hop as u8 % 100), 171 + branch as u8, 93 + (hop as u8 * 3) % 150))
}

pub struct Model {
    /// per trace: current path (hops -> branch addresses)
    pub path_len: Vec<usize>,
    pub round: Vec<usize>,
    pub first_ttl: u8,
    /// per trace: the target's distance once it has answered (the strategy remembers it: a later
    /// round in which nothing answers still reports it as the path length)
    pub target_ttl: Vec<Option<u8>>,
    /// per trace: rounds of a network outage still to come (nothing answers)
    pub outage: Vec<usize>,
}

impl Model {
    pub fn new(path_len: Vec<usize>, first_ttl: u8) -> Self {
        let n = path_len.len();
        Self { path_len, round: vec![0; n], first_ttl, target_ttl: vec![None; n], outage: vec![0; n] }
    }
}

pub fn gen_round(r: &mut Prng, m: &mut Model, trace: usize, strategy: MultipathStrategy) -> (Vec<ProbeStatus>, u8) {
    let k = m.round[trace];
    m.round[trace] += 1;
    // paths grow and shrink
    match r.below(8) {
        0 if m.path_len[trace] < 30 => m.path_len[trace] += r.range(1, 3) as usize,
        1 if m.path_len[trace] > 1 => m.path_len[trace] -= 1,
        _ => {}
    }
    let mut len = m.path_len[trace];
    let t0 = SystemTime::now() - Duration::from_secs(5);
    let flow_branch = if strategy == MultipathStrategy::Classic { 0 } else { r.below(3) as usize };
    // (a second, independently varying position gives up to nine distinct paths)
    let flow_branch2 = if strategy == MultipathStrategy::Classic { 0 } else { r.below(3) as usize };
    let mut probes = Vec::new();
    let silent_round = m.outage[trace] > 0 || r.chance(1, 12);
    m.outage[trace] = m.outage[trace].saturating_sub(1);
    if silent_round {
        // (once the target's distance is known the strategy probes up to it and no further)
        if let Some(t) = m.target_ttl[trace] {
            len = usize::from(t - m.first_ttl) + 1;
        }
    }
    for j in 0..len {
        let ttl = m.first_ttl + j as u8;
        let p = probe_new(Sequence(33_000 + (k as u16 % 500) * 40 + j as u16), TraceId(100), Port(5000), Port(33_434 + j as u16), TimeToLive(ttl), RoundId(k), t0, Flags::empty());
        if silent_round || r.chance(1, 6) {
            probes.push(ProbeStatus::Awaited(p));
        } else if r.chance(1, 25) {
            probes.push(ProbeStatus::Failed(synth::failed(p)));
        } else {
            let branch = if j % 3 == 1 { flow_branch } else if j % 3 == 2 && j > 3 { flow_branch2 } else if r.chance(1, 10) { 1 } else { 0 };
            let host = if j + 1 == len { targets_for(trace + 1)[trace] } else { addr_of(usize::from(ttl), branch) };
            let ext = if r.chance(1, 6) {
                Some(Extensions { extensions: vec![Extension::Mpls(MplsLabelStack { members: vec![MplsLabelStackMember { label: 16_000 + u32::from(ttl), exp: 1, bos: 1, ttl: 3 }] })] })
            } else {
                None
            };
            let rtt = Duration::from_micros(r.range(100, 90_000));
            let kind = if j + 1 == len { IcmpPacketType::EchoReply(trippy_core::verif::IcmpPacketCode(0)) } else { IcmpPacketType::TimeExceeded(trippy_core::verif::IcmpPacketCode(0)) };
            probes.push(ProbeStatus::Complete(synth::complete(p, host, t0 + rtt, kind, Some(trippy_core::TypeOfService(r.below(256) as u8)), Some(1), Some(if r.chance(1, 8) { 2 } else { 1 }), ext)));
        }
    }
    let answered = probes.iter().any(|p| matches!(p, ProbeStatus::Complete(_)));
    if matches!(probes.last(), Some(ProbeStatus::Complete(_))) {
        m.target_ttl[trace] = Some(m.first_ttl + len as u8 - 1);
    } else if answered {
        // the path changed under the known distance: the strategy forgets it
        if m.target_ttl[trace].is_some_and(|t| t != m.first_ttl + len as u8 - 1) {
            m.target_ttl[trace] = None;
        }
    }
    let largest = if answered { m.first_ttl + len as u8 - 1 } else { m.target_ttl[trace].unwrap_or(0) };
    (probes, largest)
}

pub struct SessionStats {
    pub draws: u64,
    pub keys: u64,
    pub views: BTreeSet<String>,
    pub privacy_values: BTreeSet<String>,
    pub hidden_hops_checked: u64,
    pub visible_hops_checked: u64,
}

fn index_invariants(s: &Session, o: &mut Outcome, site: &str, replay: &Value, ctx: &str) {
    let app = &s.app;
    let st: &State = app.tracer_data();
    o.hit("selection_refers_to_existing_entries");
    let mut bad: Option<(&'static str, String)> = None;
    if app.trace_selected >= app.trace_info.len() {
        bad = Some(("trace", format!("selected trace {} of {}", app.trace_selected, app.trace_info.len())));
    }
    let flow_known = app.selected_flow == FlowId(0) || st.flows().iter().any(|(_, id)| *id == app.selected_flow);
    if !flow_known {
        bad = Some(("flow", format!("selected flow {} is not among the {} registered flows", app.selected_flow, st.flows().len())));
    } else {
        let hops = st.hops_for_flow(app.selected_flow);
        if let Some(sel) = app.table_state.selected() {
            if sel >= hops.len() {
                bad = Some(("hop", format!("selected hop index {sel} of {} hops", hops.len())));
            } else if app.selected_hop_address >= hops[sel].addr_count().max(1) {
                bad = Some(("hop-address", format!("selected address index {} of {} addresses", app.selected_hop_address, hops[sel].addr_count())));
            }
        }
    }
    // with the flows panel open the selected flow must be one of the flows being displayed
    // (the flow navigation keys look it up there)
    if bad.is_none() && app.show_flows && !app.flow_counts.iter().any(|(id, _)| *id == app.selected_flow) {
        bad = Some(("flow-displayed", format!("flows panel open, selected flow {} is not among the {} flows displayed ({} registered)", app.selected_flow, app.flow_counts.len(), st.flows().len())));
    }
    let tabs = settings_tabs();
    if app.settings_tab_selected >= tabs.len() {
        bad = Some(("settings-tab", format!("selected tab {}", app.settings_tab_selected)));
    } else if let Some(item) = app.setting_table_state.selected() {
        let n = if app.settings_tab_selected == SETTINGS_TAB_COLUMNS { app.tui_config.tui_columns.all_columns_count() } else { tabs[app.settings_tab_selected].1 };
        if item >= n.max(1) {
            bad = Some(("settings-item", format!("selected item {item} of {n} in tab {}", app.settings_tab_selected)));
        }
    }
    if let Some((what, d)) = bad {
        o.violate("selection_refers_to_existing_entries", format!("{site}|{what}"), format!("{ctx}: {d}"), replay.clone());
    }
}

/// C18: scan the frame for the secrets of hidden hops.
fn privacy_scan(s: &Session, secrets: &[Secrets], source: &Secrets, o: &mut Outcome, site: &str, replay: &Value, ctx: &str, stats: &mut SessionStats) {
    let app = &s.app;
    let rows = s.rows();
    let privacy = app.tui_config.privacy_max_ttl;
    stats.privacy_values.insert(format!("{privacy:?}"));
    let st = app.tracer_data();
    // responders by visibility (a hidden hop's data may legitimately be on screen if the same
    // address also answers at a visible hop, or is the target the user asked for)
    let mut hidden: Vec<IpAddr> = Vec::new();
    let mut visible: BTreeSet<IpAddr> = BTreeSet::new();
    let flows: Vec<FlowId> = std::iter::once(FlowId(0)).chain(st.flows().iter().map(|(_, id)| *id)).collect();
    for f in &flows {
        for h in st.hops_for_flow(*f) {
            for a in h.addrs() {
                if privacy.is_some_and(|n| h.ttl() <= n) {
                    hidden.push(*a);
                } else {
                    visible.insert(*a);
                }
            }
        }
    }
    for t in targets_for(app.trace_info.len()) {
        visible.insert(t);
    }
    let find = |needle: &str| rows.iter().position(|r| r.contains(needle));
    if privacy.is_some() {
        o.hit("source_address_hidden");
        for (kind, n) in source.needles() {
            if kind == "ip" || kind == "hostname" {
                if let Some(row) = find(&n) {
                    o.violate("source_address_hidden", format!("{site}|{kind}"), format!("{ctx}: source {kind} {n:?} on screen with privacy {privacy:?}: {:?}", rows[row].trim()), replay.clone());
                }
            }
        }
    }
    // the map view: a pin is the rendering of a hop's GeoIP location.  Every pin on screen must
    // belong to a location of a visible hop, so there are never more pins than visible responders
    // (pins may coincide or be covered, hence an upper bound)
    if privacy.is_some() && app.show_map && !app.show_help && !app.show_settings {
        // (a pin is two columns wide: the cell to its right is covered by it on a terminal, but
        // the test backend keeps whatever an earlier frame left there - not counted)
        let pins: usize = rows
            .iter()
            .map(|r| {
                let (mut n, mut covered) = (0usize, false);
                for ch in r.chars() {
                    if ch == '\u{1F4CD}' && !covered {
                        n += 1;
                        covered = true;
                    } else {
                        covered = false;
                    }
                }
                n
            })
            .sum();
        let located_visible: BTreeSet<IpAddr> = flows
            .iter()
            .flat_map(|f| st.hops_for_flow(*f).iter().filter(|h| privacy.is_none_or(|n| h.ttl() > n)).flat_map(|h| h.addrs().copied().collect::<Vec<_>>()).collect::<Vec<_>>())
            .collect();
        o.hit("map_pins_only_for_visible_hops");
        if pins > located_visible.len() {
            if std::env::var("VERIF_TRACE").is_ok() {
                for rr in &rows {
                    eprintln!("{}", rr.trim_end());
                }
                for f in &flows {
                    for h in st.hops_for_flow(*f) {
                        eprintln!("flow {f} ttl {} addrs {:?}", h.ttl(), h.addrs().collect::<Vec<_>>());
                    }
                }
            }
            o.violate(
                "map_pins_only_for_visible_hops",
                "map",
                format!("{ctx}: {pins} location pins on the map although only {} responders are visible (privacy ttl {privacy:?}): the location of a hidden hop is drawn", located_visible.len()),
                replay.clone(),
            );
            return;
        }
    }
    for a in hidden {
        if visible.contains(&a) {
            continue;
        }
        let Some(sec) = secrets.iter().find(|x| x.addr == a) else { continue };
        stats.hidden_hops_checked += 1;
        o.hit("hidden_hop_data_absent");
        for (kind, n) in sec.needles() {
            if let Some(row) = find(&n) {
                let view = view_name(app);
                if std::env::var("VERIF_TRACE").is_ok() {
                    eprintln!("---- frame ({ctx}) privacy {privacy:?} selected_flow {} frozen {:?}", app.selected_flow, app.frozen_start.is_some());
                    for rr in &rows {
                        eprintln!("{}", rr.trim_end());
                    }
                    for f in &flows {
                        for h in st.hops_for_flow(*f) {
                            eprintln!("flow {f} ttl {} addrs {:?}", h.ttl(), h.addrs().collect::<Vec<_>>());
                        }
                    }
                }
                o.violate(
                    "hidden_hop_data_absent",
                    format!("{kind}|{view}"),
                    format!("{ctx}: {kind} {n:?} of hidden responder {a} on screen (privacy ttl {privacy:?}, view {view}): {:?}", rows[row].trim()),
                    replay.clone(),
                );
                return;
            }
        }
    }
}

fn view_name(app: &trippy_tui::verif::TuiApp) -> String {
    let base = if app.show_settings {
        format!("settings{}", app.settings_tab_selected)
    } else if app.show_help {
        "help".to_string()
    } else if app.tracer_data().error().is_some() {
        "error".to_string()
    } else if app.tracer_data().hops().is_empty() {
        "splash".to_string()
    } else if app.show_chart {
        "chart".to_string()
    } else if app.show_map {
        "map".to_string()
    } else if app.show_hop_details {
        "details".to_string()
    } else {
        "table".to_string()
    };
    format!("{base}{}{}", if app.show_flows { "+flows" } else { "" }, if app.trace_info.len() > 1 { "+tabs" } else { "" })
}

/// Set once a draw has hung in this process: the thread that hung keeps a core busy for the rest of
/// the run, so later sessions avoid the one column set that is known to do that.
/// The column set as it appears in signatures: the layout solver defect (known finding) shows with
/// wide column sets - the full 27 column set and the 18 column set have both been seen to fail, at
/// different terminal widths - so those are keyed as one class; narrower sets are named.
pub fn column_class(columns: &str) -> String {
    if columns.chars().count() >= 18 {
        "wide(18-or-more-of-27)".to_string()
    } else {
        columns.to_string()
    }
}

static HANG_SEEN: std::sync::atomic::AtomicBool = std::sync::atomic::AtomicBool::new(false);

pub fn session(seed: u64, i: usize, tier: Tier, which: Which, progress: &crate::framework::Progress) -> Outcome {
    let mut o = Outcome::default();
    let mut r = Prng::new(seed ^ (i as u64).wrapping_mul(0x9E37_79B9_7F4A_7C15) ^ 0xC17);
    let strategy = *r.pick(&[MultipathStrategy::Classic, MultipathStrategy::Paris, MultipathStrategy::Dublin]);
    let protocol = if strategy == MultipathStrategy::Classic { *r.pick(&[Protocol::Icmp, Protocol::Udp, Protocol::Tcp]) } else { Protocol::Udp };
    let traces = if protocol == Protocol::Icmp { *r.pick(&[1usize, 1, 2, 4]) } else { 1 };
    let setup = TuiSetup {
        address_mode: *r.pick(&["ip", "host", "both"]),
        as_mode: *r.pick(&["asn", "prefix", "country-code", "registry", "allocated", "name"]),
        geoip_mode: *r.pick(&["short", "long", "location", "off"]),
        icmp_ext_mode: *r.pick(&["off", "mpls", "full", "all"]),
        lookup_as_info: r.chance(1, 2),
        columns: (*r.pick(&["holsravbwdt", "h", "ho", "holsravbwdtjgxiSPQTCNfFBDKM", "oh", "odh"])).to_string(),
        privacy: if which == Which::Privacy || r.chance(1, 3) { *r.pick(&[None, Some(0), Some(1), Some(2), Some(3), Some(5), Some(9), Some(40)]) } else { None },
        max_addrs: *r.pick(&[None, None, Some(1), Some(2), Some(9)]),
        traces,
        protocol,
        strategy,
        max_flows: *r.pick(&[1usize, 2, 3, 5, 64]),
        max_samples: *r.pick(&[1usize, 3, 256]),
        with_geoip: r.chance(2, 3),
    };
    let mut setup = setup;
    if setup.columns.len() >= 18 && HANG_SEEN.load(std::sync::atomic::Ordering::Relaxed) {
        setup.columns = "holsravbwdt".to_string();
    }
    let site = format!("{protocol}/{strategy}/traces{traces}");
    let replay = json!({"how": format!("vcheck {} --seed {seed} --only {i}", if which == Which::Crash { "C17" } else { "C18" }), "scenario": i, "setup": format!("{setup:?}")});
    // secrets for every address that can appear
    let mut secrets: Vec<Secrets> = Vec::new();
    let mut idx = 0;
    for hop in 1..=40usize {
        for b in 0..3 {
            secrets.push(Secrets::new(addr_of(hop, b), idx, &mut r));
            idx += 1;
        }
    }
    for t in targets_for(traces) {
        secrets.push(Secrets::new(t, idx, &mut r));
        idx += 1;
    }
    let source = Secrets::new(IpAddr::V4(scen::HOST_V4), idx, &mut r);
    secrets.push(source.clone());
    let mut s = match guarded(|| Session::new(&setup, &secrets, (seed << 20) ^ i as u64)) {
        Ok(Ok(s)) => s,
        Ok(Err(e)) => {
            o.harness_error = Some(format!("session {i}: {e}"));
            return o;
        }
        Err(p) if p.in_repo() => {
            o.violate("no_panic", format!("{site}|new|{}", p.site()), format!("TuiApp construction: panic at {}:{}: {}", p.file, p.line, p.message), replay);
            return o;
        }
        Err(p) => {
            o.harness_error = Some(format!("session {i}: harness panic {}:{}: {}", p.file, p.line, p.message));
            return o;
        }
    };
    let mut model = Model::new((0..traces).map(|_| r.range(1, 12) as usize).collect(), *r.pick(&[1u8, 1, 1, 2, 4]));
    // give the first tracer a source address by letting it really run one round over a world
    if r.chance(2, 3) {
        let t = targets_for(1)[0];
        let mut hs = HopSpec::simple(t, 400_000);
        hs.quote = Quote::Full;
        let world = World::new(world_cfg(Topology { hops: Vec::new(), target: hs, tcp: TcpMode::Rst }, 3));
        let tr = s.tracers[0].clone();
        let _ = guarded(|| run_tracer(&world, 0, &tr, &RunOpts { snapshots: false }));
    }
    let cycles = tier.pick(200, 500);
    let mut stats = SessionStats { draws: 0, keys: 0, views: BTreeSet::new(), privacy_values: BTreeSet::new(), hidden_hops_checked: 0, visible_hops_checked: 0 };
    let keys = all_keys(&s.app);
    let mut history: Vec<String> = Vec::new();
    let mut burst: std::collections::VecDeque<(&'static str, crossterm::event::KeyEvent)> = std::collections::VecDeque::new();
    let mut record = |h: &mut Vec<String>, e: String| {
        if h.len() >= 12 {
            h.remove(0);
        }
        h.push(e);
    };
    // one session in five starts quietly: no round is published during the first cycles (the
    // splash screen) and the privacy keys are pressed while the hop list is still empty
    let quiet_start = r.chance(1, 5);
    if quiet_start {
        let find = |n: &str| keys.iter().find(|(k, _)| *k == n).copied();
        if let (Some(ex), Some(co)) = (find("expand_privacy"), find("contract_privacy")) {
            for k in [ex, co, ex, ex, co] {
                if r.chance(3, 4) {
                    burst.push_back(k);
                }
            }
        }
    }
    for c in 0..cycles {
        // ---- the trace changes between cycles
        match if quiet_start && c < 6 { 9 } else { r.below(10) } {
            0..=4 => {
                let n = r.range(1, 3);
                for _ in 0..n {
                    let t = r.below(traces as u64) as usize;
                    let (probes, largest) = gen_round(&mut r, &mut model, t, setup.strategy);
                    let round = Round::new(&probes, TimeToLive(largest), CompletionReason::TargetFound);
                    let tr = s.tracers[t].clone();
                    if let Err(p) = guarded(|| tr.verif_apply_round(&round)) {
                        o.violate("no_panic", format!("{site}|apply_round|{}", p.site()), format!("update_from_round: panic at {}:{}: {}", p.file, p.line, p.message), replay.clone());
                        return o;
                    }
                }
                record(&mut history, format!("rounds x{n}"));
            }
            5 if r.chance(1, 6) => {
                let t = r.below(traces as u64) as usize;
                s.tracers[t].clear();
                model.round[t] = 0;
                record(&mut history, format!("tracer.clear({t})"));
            }
            6 if r.chance(1, 30) => {
                let t = r.below(traces as u64) as usize;
                s.tracers[t].verif_set_error("IO error: simulated failure".to_string());
                record(&mut history, format!("tracer.error({t})"));
            }
            7 if r.chance(1, 3) => {
                let (w, h) = match r.below(6) {
                    0 => (r.range(1, 12) as u16, r.range(1, 12) as u16),
                    1 => (r.range(1, 300) as u16, r.range(1, 100) as u16),
                    2 => (300, 100),
                    3 => (1, 1),
                    _ => (r.range(60, 200) as u16, r.range(20, 70) as u16),
                };
                s.resize(w, h);
                record(&mut history, format!("resize {w}x{h}"));
            }
            _ => {}
        }
        // ---- snapshot, clamp, flow counts; then the selection must be consistent; then draw
        let ctx = format!("cycle {c} (last events: {})", history.join(", "));
        {
            let app = &mut s.app;
            let pre = guarded(|| {
                if app.frozen_start.is_none() {
                    app.snapshot_trace_data();
                    app.clamp_selected_hop();
                    app.update_order_flow_counts();
                }
            });
            if let Err(p) = pre {
                if p.in_repo() {
                    o.violate("no_panic", format!("{site}|pre-draw|{}", p.site()), format!("{ctx}: panic at {}:{}: {}", p.file, p.line, p.message), replay.clone());
                } else {
                    o.harness_error = Some(format!("harness panic {}:{} {}", p.file, p.line, p.message));
                }
                return o;
            }
        }
        if which == Which::Crash {
            let r2 = guarded(|| index_invariants(&s, &mut o, &site, &replay, &ctx));
            if let Err(p) = r2 {
                // hops_for_flow on an unknown flow panics inside trippy: the selection is stale
                o.violate("selection_refers_to_existing_entries", format!("{site}|query|{}", p.site()), format!("{ctx}: panic while reading the selection: {}:{}: {}", p.file, p.line, p.message), replay.clone());
                return o;
            }
        }
        progress.step(|| format!("view={}|columns={}|size={}x{}|hops={}|{}", view_name(&s.app), column_class(&setup.columns), s.size.0, s.size.1, s.app.tracer_data().hops().len(), replay["how"].as_str().unwrap_or("")));
        if std::env::var("VERIF_TRACE").is_ok() {
            eprintln!("cycle {c}: size {:?} view {} columns {:?} hops {} sel {:?} | {}", s.size, view_name(&s.app), setup.columns, s.app.tracer_data().hops().len(), s.app.table_state.selected(), history.last().cloned().unwrap_or_default());
        }
        {
            let app = &mut s.app;
            let term = &mut s.term;
            let d = guarded(|| term.draw(|f| trippy_tui::verif::render(f, app)).map(|_| ()));
            match d {
                Ok(_) => {}
                // ratatui's constraint solver giving up on the hop table's column constraints
                // ("failed to split: InternalSolverError"): the panicking sibling of the draw
                // that never returns, keyed like it on the column set
                Err(p) if p.message.contains("failed to split") || p.message.contains("InternalSolverError") => {
                    let base = view_name(&s.app);
                    let base = base.split('+').next().unwrap_or("").to_string();
                    let view = if ["chart", "map", "splash", "error"].contains(&base.as_str()) { base } else { "table".to_string() };
                    o.violate("layout_solver_fails", format!("view={view}|columns={}", column_class(&setup.columns)), format!("{ctx}: render at {}x{} panicked at {}:{}: {}", s.size.0, s.size.1, p.file, p.line, p.message), replay.clone());
                    return o;
                }
                Err(p) if p.in_repo() => {
                    o.violate("no_panic", format!("{site}|render|{}|{}", view_name(&s.app), p.site()), format!("{ctx}: render at {}x{} panicked at {}:{}: {}", s.size.0, s.size.1, p.file, p.line, p.message), replay.clone());
                    return o;
                }
                Err(p) => {
                    // a panic inside ratatui / a dependency reached through trippy's render call
                    o.violate("no_panic", format!("{site}|render-dep|{}", p.file.rsplit('/').next().unwrap_or("")), format!("{ctx}: render at {}x{} panicked in a dependency at {}:{}: {}", s.size.0, s.size.1, p.file, p.line, p.message), replay.clone());
                    return o;
                }
            }
        }
        stats.draws += 1;
        stats.views.insert(view_name(&s.app));
        o.hit("draw_completes");
        if which == Which::Privacy {
            privacy_scan(&s, &secrets, &source, &mut o, &site, &replay, &ctx, &mut stats);
            if !o.violations.is_empty() {
                return o;
            }
        }
        // ---- one key press (sometimes none); now and then a purposeful burst: open the columns
        // tab of the settings, walk down the list (possibly to its end), move / toggle columns
        if burst.is_empty() && r.chance(1, 60) {
            let find = |n: &str| keys.iter().find(|(k, _)| *k == n).copied();
            // (the other kind of burst: select a hop far down, freeze the display, open the flows
            // panel and switch between flows of different lengths)
            if r.chance(1, 3) {
                // an outage: the trace data is cleared, for the next rounds nothing answers (the
                // hops are back, without a single responder), and the keys that size the host
                // column are pressed before the network recovers
                if let (Some(clear), Some(a), Some(b), Some(c), Some(d)) = (find("clear_trace_data"), find("expand_hosts_max"), find("expand_hosts"), find("contract_hosts"), find("contract_hosts_min")) {
                    for o in model.outage.iter_mut() {
                        *o = r.range(2, 5) as usize;
                    }
                    burst.push_back(clear);
                    for _ in 0..r.range(1, 4) {
                        burst.push_back(*r.pick(&[a, a, b, c, d]));
                    }
                }
            } else if r.chance(1, 4) {
                // walk the addresses of a hop, then move to its neighbours (which may have fewer)
                if let (Some(down), Some(up), Some(na), Some(pa), Some(details)) = (find("next_hop"), find("previous_hop"), find("next_hop_address"), find("previous_hop_address"), find("toggle_hop_details")) {
                    if r.chance(1, 2) {
                        burst.push_back(details);
                    }
                    for _ in 0..r.range(1, 12) {
                        burst.push_back(down);
                    }
                    for _ in 0..r.range(1, 3) {
                        burst.push_back(na);
                    }
                    for _ in 0..r.range(1, 4) {
                        burst.push_back(*r.pick(&[up, up, down, na, pa]));
                    }
                }
            } else if r.chance(1, 2) {
                if let (Some(down), Some(freeze), Some(flows), Some(next), Some(prev), Some(esc)) = (find("next_hop"), find("toggle_freeze"), find("toggle_flows"), find("next_trace"), find("previous_trace"), find("clear_selection")) {
                    burst.push_back(esc);
                    for _ in 0..r.range(1, 30) {
                        burst.push_back(down);
                    }
                    if r.chance(2, 3) {
                        burst.push_back(freeze);
                    }
                    burst.push_back(flows);
                    for _ in 0..r.range(1, 5) {
                        burst.push_back(*r.pick(&[next, next, prev]));
                    }
                    if r.chance(1, 2) {
                        burst.push_back(freeze);
                    }
                }
            } else
            if let (Some(open), Some(down), Some(mv_down), Some(mv_up), Some(toggle)) = (find(*r.pick(&["toggle_settings_columns", "toggle_settings_columns", "toggle_settings_bindings", "toggle_settings_theme", "toggle_settings_tui"])), find("next_hop"), find("next_hop_address"), find("previous_hop_address"), find("toggle_chart")) {
                burst.push_back(open);
                for _ in 0..*r.pick(&[0u64, 1, 5, 26, 27, 30, 33, 37]) {
                    burst.push_back(down);
                }
                for _ in 0..r.range(1, 4) {
                    burst.push_back(*r.pick(&[mv_down, mv_down, mv_up, toggle]));
                }
            }
        }
        if !burst.is_empty() || r.chance(4, 5) {
            let (name, key) = burst.pop_front().unwrap_or_else(|| *r.pick(&keys));
            // keyboard clause of C18: expand / contract move the privacy ttl by exactly one step
            let before = s.app.tui_config.privacy_max_ttl;
            let hop_count = {
                let app = &s.app;
                guarded(|| app.tracer_data().hops_for_flow(app.selected_flow).len()).unwrap_or(0)
            };
            let normal_mode = !s.app.show_help && !s.app.show_settings;
            match s.key(key) {
                Ok(_) => {}
                Err(p) if p.in_repo() => {
                    o.violate("no_panic", format!("{site}|key:{name}|{}", p.site()), format!("{ctx}: key {name} panicked at {}:{}: {}", p.file, p.line, p.message), replay.clone());
                    return o;
                }
                Err(p) => {
                    o.harness_error = Some(format!("harness panic {}:{} {}", p.file, p.line, p.message));
                    return o;
                }
            }
            stats.keys += 1;
            record(&mut history, format!("key {name}"));
            if name == "clear_dns_cache" && normal_mode {
                for sec in &secrets {
                    s.app.resolver.verif_seed(sec.addr, sec.dns_entry(setup.lookup_as_info, true));
                }
            }
            if which == Which::Privacy && normal_mode && (name == "expand_privacy" || name == "contract_privacy") {
                let after = s.app.tui_config.privacy_max_ttl;
                o.hit("privacy_keys_step_by_one");
                let want = if name == "expand_privacy" {
                    match before {
                        None => Some(0),
                        Some(n) if usize::from(n) < hop_count => Some(n + 1),
                        Some(n) => Some(n),
                    }
                } else {
                    match before {
                        None => None,
                        Some(0) => None,
                        Some(n) => Some(n - 1),
                    }
                };
                if after != want {
                    o.violate("privacy_keys_step_by_one", name, format!("{ctx}: {name} changed the privacy ttl from {before:?} to {after:?} with {hop_count} hops, expected {want:?}"), replay.clone());
                }
            }
        }
    }
    o.count("draws", stats.draws);
    o.count("keys_routed", stats.keys);
    o.count("hidden_responders_scanned", stats.hidden_hops_checked);
    for v in &stats.views {
        o.observe("views_drawn", v.clone());
    }
    for p in &stats.privacy_values {
        o.observe("privacy_values", p.clone());
    }
    o.observe("display_modes", format!("{}/{}/{}/as{}", setup.address_mode, setup.as_mode, setup.geoip_mode, setup.lookup_as_info));
    if stats.views.len() >= 3 {
        o.nontrivial = Some(format!("{site}|{}|{}|{}|{i}", setup.address_mode, setup.geoip_mode, stats.views.len()));
    }
    if i < 1 {
        o.sample = Some(json!({"session": i, "setup": format!("{setup:?}"), "views": stats.views, "last_frame_rows": s.rows().into_iter().take(12).collect::<Vec<_>>()}));
    }
    o
}

/// The privacy check shares the session driver with the crash check, but a front end that crashes
/// is C17's subject: under C18 such sessions are counted, not judged.
fn for_property(mut o: Outcome, which: Which) -> Outcome {
    if which == Which::Privacy {
        let before = o.violations.len();
        o.violations.retain(|v| !matches!(v.clause.as_str(), "no_panic" | "layout_solver_fails" | "selection_refers_to_existing_entries"));
        let dropped = before - o.violations.len();
        if dropped > 0 {
            o.count("sessions_ended_by_a_front_end_crash_not_judged_under_this_property", dropped as u64);
        }
    }
    o
}

pub fn run(tier: Tier, seed: u64, only_arg: Option<String>, which: Which) -> i32 {
    // `--only N` = mirrored-driver session N, `--only loop:N` = real-loop session N
    let only_loop: Option<usize> = only_arg.as_deref().and_then(|s| s.strip_prefix("loop:")).and_then(|s| s.parse().ok());
    let only: Option<usize> = if only_loop.is_some() { None } else { only_arg.as_deref().and_then(|s| s.parse().ok()) };
    let id = if which == Which::Crash { "C17" } else { "C18" };
    let mut rep = Report::new(id, "exploration", tier, seed);
    rep.rule = "session = real TuiApp + render on a ratatui TestBackend, driven through the same cycle as run_app (snapshot -> clamp -> flow counts -> draw -> one key routed as run_app routes it in help / settings / normal mode) for 200..500 cycles; between cycles the trace changes: 1..3 synthetic rounds per cycle applied to the (1, 2 or 4) tracers through a hook (paths of 1..30 hops that grow and shrink, several responders per hop, Paris/Dublin flows, awaited / failed probes, silent rounds, extensions), tracer.clear(), a tracer error, one real round over the simulator (gives the tracer a source address), terminal resizes from 1x1 to 300x100; setup drawn per session: address / AS / GeoIP / extension modes, AS lookups, 6 column sets, max-addrs, max-flows, max-samples, privacy ttl; every address has unique hostname / AS / GeoIP strings seeded into the DNS cache and a generated MaxMind database; stage 2 = the same kind of session through the real frontend::run_app loop in child processes: the keys are typed as terminal byte sequences into a pseudo terminal that is the process's stdin, the traces change and the terminal is resized from a second thread, every frame flushed to the recording backend is scanned (C18: for everything belonging to addresses that only answer at ttl <= the privacy ttl, which stays fixed in these sessions), the session ends by typing the quit key; distinct by (setup, number of views drawn, session)".into();
    rep.assumptions = vec![
        "stage 1 (mirrored driver): key routing is a transcription of run_app's if/else chain (harness/src/tui.rs), which allows the selection invariants to be read between the steps; stage 2 runs the real run_app loop (real key decoding by crossterm from a pseudo terminal, real routing, real per-cycle snapshot/clamp) on a recording backend, where only panics, frames and termination are observable".into(),
        "C18: a secret of a hidden responder may be on screen if the same address also answers at a visible hop or is a target the user typed; strings are searched per screen row, whole and as 6..8 character prefixes (clipped cells)".into(),
    ];
    rep.required_clauses = if which == Which::Crash {
        vec!["draw_completes", "selection_refers_to_existing_entries", "real_loop_session_completes", "real_loop_quit_key_ends_the_loop"]
    } else {
        vec!["draw_completes", "hidden_hop_data_absent", "source_address_hidden", "privacy_keys_step_by_one", "real_loop_hidden_hop_data_absent"]
    };
    if only_arg.is_some() {
        rep.required_clauses.clear();
    }
    let n = tier.pick(300, 3_000);
    let hang = move |item: usize, ctx: &str| {
        // a draw (or key) that has not returned for 20s (normally milliseconds): a frozen front end
        let mut o = Outcome::default();
        let mut parts = ctx.split('|');
        let view = parts.next().unwrap_or("view=?").to_string();
        let cols = parts.next().unwrap_or("columns=?").to_string();
        o.hit("draw_completes");
        // what hangs is the layout of the hop table, which is drawn in every view except the
        // full-screen ones (the dialogs, the details, flows and tabs panels only overlay it)
        let base = view.trim_start_matches("view=");
        let base = base.split('+').next().unwrap_or(base);
        let view = if ["chart", "map", "splash", "error"].contains(&base) { view.clone() } else { "view=table".to_string() };
        HANG_SEEN.store(true, std::sync::atomic::Ordering::Relaxed);
        if which == Which::Crash {
            o.violate("draw_terminates", format!("{view}|{cols}"), format!("session {item}: drawing did not return within 20s ({ctx})"), json!({"how": format!("vcheck {id} --seed {seed} --only {item}"), "scenario": item, "context": ctx}));
        } else {
            // a frozen front end is C17's subject; for the privacy check the session is simply lost
            o.count("sessions_abandoned_because_a_draw_did_not_return", 1);
        }
        o
    };
    match (only, only_loop) {
        (Some(i), _) => rep.run_parallel_watchdog(1, 20, move |_, p| for_property(session(seed, i, tier, which, p), which), hang),
        (None, Some(_)) => {}
        (None, None) => rep.run_parallel_watchdog(n, 20, move |i, p| for_property(session(seed, i, tier, which, p), which), hang),
    }
    // ---- stage 2: the real run_app event loop, keys typed into a pseudo terminal (child processes)
    if only.is_none() {
        let n_loop = tier.pick(64, 800);
        for o in crate::props::c17_loop::run_children(seed, tier, which, n_loop, only_loop) {
            rep.merge(o);
        }
        let sessions = rep.counters.get("real_loop_sessions").copied().unwrap_or(0);
        let stalled = rep.counters.get("real_loop_sessions_stalled").copied().unwrap_or(0);
        if only_loop.is_none() && (sessions < n_loop as u64 / 2 || stalled * 4 > sessions) {
            rep.harness_errors.push(format!("real-loop stage: only {sessions} of {n_loop} sessions ran, {stalled} stalled"));
        }
    }
    for v in rep.violations.iter().take(if only.is_some() { 5 } else { 0 }) {
        println!("{}: {}", v.signature(), v.detail);
    }
    rep.finish()
}
