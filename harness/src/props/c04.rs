//! C04 - no inbound packet, however malformed, can crash the tracer.
use crate::forge;
use crate::framework::{guarded, Outcome, Panic, Report, Tier};
use crate::prng::Prng;
use crate::scen::{self, ms, world_cfg, Cell};
use crate::sim::{run_tracer, RunOpts};
use crate::wire::{self, build_err_body, build_extension, mpls_object, ExtObject, Ip4, Ip6, MplsEntry, Rfc4884, Udp, PROTO_ICMP, PROTO_ICMP6, PROTO_TCP, PROTO_UDP};
use crate::world::{HopSpec, PktClass, Quote, TcpMode, Topology, World};
use serde_json::{json, Value};
use std::net::IpAddr;
use std::sync::Arc;
use trippy_core::verif::{Channel, ChannelConfig, Network, SocketImpl};
use trippy_core::{IcmpExtensionParseMode, MultipathStrategy, PacketSize, PayloadPattern, PrivilegeMode, Protocol, Sequence, TypeOfService};
use trippy_packet::icmp_extension::extension_header::ExtensionHeaderPacket;
use trippy_packet::icmp_extension::extension_object::ExtensionObjectPacket;
use trippy_packet::icmp_extension::extension_structure::ExtensionsPacket;
use trippy_packet::icmp_extension::mpls_label_stack::MplsLabelStackPacket;
use trippy_packet::icmp_extension::mpls_label_stack_member::MplsLabelStackMemberPacket;
use trippy_packet::ipv4::Ipv4Packet;
use trippy_packet::ipv6::Ipv6Packet;
use trippy_packet::tcp::TcpPacket;
use trippy_packet::udp::UdpPacket;
use trippy_packet::{icmpv4, icmpv6};

#[derive(Debug, Clone, Copy)]
pub struct Cfg {
    pub protocol: Protocol,
    pub v6: bool,
    pub ext: bool,
}

pub fn configs() -> Vec<Cfg> {
    let mut v = Vec::new();
    for protocol in [Protocol::Icmp, Protocol::Udp, Protocol::Tcp] {
        for v6 in [false, true] {
            for ext in [false, true] {
                v.push(Cfg { protocol, v6, ext });
            }
        }
    }
    v
}

impl Cfg {
    pub fn name(&self) -> String {
        format!("{}/{}/ext-{}", self.protocol, if self.v6 { "v6" } else { "v4" }, if self.ext { "on" } else { "off" })
    }
    fn host(&self) -> IpAddr {
        if self.v6 {
            IpAddr::V6(scen::host_v6())
        } else {
            IpAddr::V4(scen::HOST_V4)
        }
    }
    fn target(&self) -> IpAddr {
        if self.v6 {
            IpAddr::V6(scen::target_v6())
        } else {
            IpAddr::V4(scen::TARGET_V4)
        }
    }
    fn channel_config(&self) -> ChannelConfig {
        ChannelConfig {
            privilege_mode: PrivilegeMode::Privileged,
            protocol: self.protocol,
            source_addr: self.host(),
            target_addr: self.target(),
            packet_size: PacketSize(if self.v6 { 104 } else { 84 }),
            payload_pattern: PayloadPattern(0),
            initial_sequence: Sequence(33434),
            tos: TypeOfService(0),
            icmp_extension_parse_mode: if self.ext { IcmpExtensionParseMode::Enabled } else { IcmpExtensionParseMode::Disabled },
            read_timeout: ms(1),
            tcp_connect_timeout: ms(10),
        }
    }

    /// A valid probe datagram of this configuration, as it would leave the host.
    pub fn probe(&self, payload_len: usize, dublin6: bool) -> Vec<u8> {
        let mut payload = vec![0u8; payload_len];
        if dublin6 && payload.len() >= 6 {
            payload[..6].copy_from_slice(b"trippy");
        }
        let transport: Vec<u8> = match self.protocol {
            Protocol::Icmp => {
                let mut m = vec![if self.v6 { 128 } else { 8 }, 0, 0, 0, 0x04, 0xd2, 0x82, 0x9a];
                m.extend_from_slice(&payload);
                m
            }
            Protocol::Udp => Udp::build(self.host(), self.target(), 5000, 33434, &payload).bytes(),
            Protocol::Tcp => wire::build_tcp_syn(self.host(), self.target(), 33434, 80, 1),
        };
        match (self.host(), self.target()) {
            (IpAddr::V4(s), IpAddr::V4(d)) => {
                let proto = match self.protocol {
                    Protocol::Icmp => PROTO_ICMP,
                    Protocol::Udp => PROTO_UDP,
                    Protocol::Tcp => PROTO_TCP,
                };
                let mut ip = Ip4::parse(&wire::wrap_ip4(s, d, proto, 1, 0, 33434, &[], &transport)).unwrap();
                ip.flags_frag = 0x4000;
                ip.fix_hdr_csum();
                ip.bytes()
            }
            (IpAddr::V6(s), IpAddr::V6(d)) => Ip6 {
                tclass: 0,
                flow: 0,
                payload_len: transport.len() as u16,
                next: match self.protocol {
                    Protocol::Icmp => PROTO_ICMP6,
                    Protocol::Udp => PROTO_UDP,
                    Protocol::Tcp => PROTO_TCP,
                },
                hop_limit: 1,
                src: s,
                dst: d,
                payload: transport,
            }
            .bytes(),
            _ => unreachable!(),
        }
    }

    /// Wrap an ICMP message (v4: type/code/body -> full IP datagram; v6: ICMPv6 message).
    pub fn icmp_error(&self, typ4: u8, typ6: u8, code: u8, length_field: u8, body: &[u8]) -> Vec<u8> {
        let router: IpAddr = scen::hop_addr(self.v6, 3, 0);
        let eb = wire::ErrBody {
            length_field,
            body: body.to_vec(),
            orig_field_len: body.len(),
        };
        match router {
            IpAddr::V4(r) => {
                let msg = wire::build_icmp4_error(typ4, code, &eb);
                wire::wrap_ip4(r, scen::HOST_V4, PROTO_ICMP, 60, 0, 7, &[], &msg)
            }
            IpAddr::V6(r) => wire::build_icmp6_error(typ6, code, &eb, r, scen::host_v6()),
        }
    }
}

// ------------------------------------------------------------------------------------------------
// datagram generation

/// Offsets inside a datagram delivered to the receive socket.
struct Offsets {
    /// start of the ICMP message
    icmp: usize,
    /// start of the quoted datagram
    quote: usize,
}

fn offsets(cfg: &Cfg) -> Offsets {
    if cfg.v6 {
        Offsets { icmp: 0, quote: 8 }
    } else {
        Offsets { icmp: 20, quote: 28 }
    }
}

/// The systematic sweeps: every attacker controlled length / offset field against buffer lengths.
fn sweep_datagrams(cfg: &Cfg, shard: usize, shards: usize, tier: Tier, out: &mut Vec<(String, Vec<u8>)>) {
    let off = offsets(cfg);
    let nested_hl = if cfg.v6 { 40 } else { 20 };
    let mut n = 0usize;
    let mut push = |label: &str, d: Vec<u8>, out: &mut Vec<(String, Vec<u8>)>| {
        if n % shards == shard {
            out.push((label.to_string(), d));
        }
        n += 1;
    };
    let exts = build_extension(&[mpls_object(&[MplsEntry { label: 1, exp: 1, s: 1, ttl: 1 }]), ExtObject { class_num: 5, c_type: 1, payload: vec![1, 2, 3, 4] }]);
    for (typ4, typ6, code) in [(11u8, 3u8, 0u8), (3, 1, 3)] {
        for probe_payload in [0usize, 6, 16, 120, 300] {
            let probe = cfg.probe(probe_payload, true);
            // valid shapes first
            for mode in [Rfc4884::None, Rfc4884::LengthOnly, Rfc4884::Compliant, Rfc4884::Legacy] {
                let q = &probe[..probe.len().min(if cfg.v6 { 1000 } else { 500 })];
                let b = build_err_body(q, Some(&exts), mode, if cfg.v6 { 8 } else { 4 });
                let d = cfg.icmp_error(typ4, typ6, code, b.length_field, &b.body);
                // truncation at every length
                let step = tier.pick(7, 1);
                for cut in (0..=d.len()).step_by(step) {
                    push("truncate", d[..cut].to_vec(), out);
                }
                // RFC 4884 length byte: all values
                for l in 0..=255u16 {
                    if l % tier.pick(5, 1) != 0 && !(60..70).contains(&l) && !(28..36).contains(&l) {
                        continue;
                    }
                    let mut x = d.clone();
                    let lo = off.icmp + if cfg.v6 { 4 } else { 5 };
                    if x.len() > lo {
                        x[lo] = l as u8;
                    }
                    push("rfc4884-length", x, out);
                }
                if !cfg.v6 {
                    // outer and nested IHL 0..15
                    for ihl in 0..16u8 {
                        let mut x = d.clone();
                        x[0] = 0x40 | ihl;
                        push("outer-ihl", x, out);
                        let mut y = d.clone();
                        if y.len() > off.quote {
                            y[off.quote] = 0x40 | ihl;
                        }
                        for cut in [off.quote + 20, off.quote + 28, off.quote + 40, y.len()] {
                            push("nested-ihl", y[..cut.min(y.len())].to_vec(), out);
                        }
                    }
                    // nested total length
                    for tl in [0u16, 1, 19, 20, 27, 28, 1000, 65_535] {
                        let mut x = d.clone();
                        if x.len() > off.quote + 4 {
                            x[off.quote + 2..off.quote + 4].copy_from_slice(&tl.to_be_bytes());
                        }
                        push("nested-total-length", x, out);
                    }
                } else {
                    for pl in [0u16, 1, 7, 8, 39, 40, 1000, 65_535] {
                        let mut x = d.clone();
                        if x.len() > off.quote + 6 {
                            x[off.quote + 4..off.quote + 6].copy_from_slice(&pl.to_be_bytes());
                        }
                        push("nested-payload-length", x, out);
                    }
                }
                // nested protocol / next header
                for p in [0u8, 1, 6, 17, 58, 255] {
                    let mut x = d.clone();
                    let po = off.quote + if cfg.v6 { 6 } else { 9 };
                    if x.len() > po {
                        x[po] = p;
                    }
                    push("nested-protocol", x, out);
                }
                // UDP length field (also the Dublin/IPv6 sequence)
                if cfg.protocol == Protocol::Udp {
                    let lo = off.quote + nested_hl + 4;
                    let vals: Vec<u16> = (0..tier.pick(40, 2048)).chain([4094, 4095, 32_767, 32_768, 65_527, 65_528, 65_534, 65_535]).collect();
                    for l in vals {
                        let mut x = d.clone();
                        if x.len() > lo + 2 {
                            x[lo..lo + 2].copy_from_slice(&l.to_be_bytes());
                        }
                        push("udp-length", x.clone(), out);
                        // magic present but the datagram cut right after it
                        if l < 16 {
                            let cut = (lo + 4 + 6).min(x.len());
                            push("udp-length-short-magic", x[..cut].to_vec(), out);
                        }
                    }
                }
                // extension object length and MPLS stacks
                if matches!(mode, Rfc4884::Compliant | Rfc4884::Legacy) {
                    let ext_at = off.quote + b.orig_field_len;
                    let lens: Vec<u16> = (0..tier.pick(24, 1100)).chain([4094, 32_768, 65_532, 65_535]).collect();
                    for l in lens {
                        let mut x = d.clone();
                        if x.len() > ext_at + 6 {
                            x[ext_at + 4..ext_at + 6].copy_from_slice(&l.to_be_bytes());
                        }
                        push("object-length", x, out);
                    }
                    for ver in [0u8, 0x10, 0x20, 0x2f, 0x30, 0xff] {
                        let mut x = d.clone();
                        if x.len() > ext_at {
                            x[ext_at] = ver;
                        }
                        push("extension-version", x, out);
                    }
                }
            }
        }
        // MPLS stack depths 0..16 and object counts 0..8, truncated at every word
        for depth in 0..=16usize {
            let entries: Vec<MplsEntry> = (0..depth).map(|i| MplsEntry { label: i as u32, exp: 0, s: u8::from(i + 1 == depth), ttl: 9 }).collect();
            let e = build_extension(&[mpls_object(&entries)]);
            let probe = cfg.probe(16, true);
            let b = build_err_body(&probe, Some(&e), Rfc4884::Compliant, if cfg.v6 { 8 } else { 4 });
            let d = cfg.icmp_error(typ4, typ6, code, b.length_field, &b.body);
            for cut in (d.len().saturating_sub(e.len() + 4)..=d.len()).step_by(1) {
                push("mpls-depth", d[..cut].to_vec(), out);
            }
            // bottom-of-stack bit never set
            let mut x = d.clone();
            let n = x.len();
            for k in (0..depth).map(|k| n - 4 * (depth - k) + 2) {
                x[k] &= 0xfe;
            }
            push("mpls-no-bos", x, out);
        }
    }
    // echo replies and unrelated ICMP types
    for t in 0..=255u8 {
        if t % tier.pick(3, 1) != 0 {
            continue;
        }
        let mut m = vec![t, 0, 0, 0, 0x04, 0xd2, 0x82, 0x9a, 1, 2, 3, 4];
        let d = if cfg.v6 { std::mem::take(&mut m) } else { wire::wrap_ip4(scen::TARGET_V4, scen::HOST_V4, PROTO_ICMP, 60, 0, 1, &[], &m) };
        for cut in 0..=d.len() {
            push("icmp-type", d[..cut].to_vec(), out);
        }
    }
}

/// Random mutations of valid responses and fully random bytes.
pub fn random_datagrams(cfg: &Cfg, r: &mut Prng, count: usize, out: &mut Vec<(String, Vec<u8>)>) {
    let exts = build_extension(&scen::random_ext(r));
    for _ in 0..count {
        let kind = r.below(10);
        if kind == 0 {
            let n = r.below(1100) as usize;
            out.push(("random-bytes".into(), r.bytes(n)));
            continue;
        }
        let probe = cfg.probe(r.below(400) as usize, r.chance(1, 2));
        let mode = *r.pick(&[Rfc4884::None, Rfc4884::LengthOnly, Rfc4884::Compliant, Rfc4884::Legacy]);
        let b = build_err_body(&probe[..probe.len().min(r.range(8, 600) as usize)], Some(&exts), mode, if cfg.v6 { 8 } else { 4 });
        let (t4, t6, c) = *r.pick(&[(11u8, 3u8, 0u8), (3, 1, 3), (3, 1, 4), (11, 3, 1)]);
        let mut d = cfg.icmp_error(t4, t6, c, b.length_field, &b.body);
        for _ in 0..r.range(1, 6) {
            if d.is_empty() {
                break;
            }
            match r.below(6) {
                0 => {
                    let i = r.below(d.len() as u64) as usize;
                    d[i] ^= 1 << r.below(8);
                }
                1 => {
                    let i = r.below(d.len() as u64) as usize;
                    d[i] = *r.pick(&[0u8, 1, 0x0f, 0x45, 0x4f, 0x7f, 0x80, 0xff]);
                }
                2 => {
                    let n = r.below(d.len() as u64 + 1) as usize;
                    d.truncate(n);
                }
                3 => {
                    // splice: copy a region over another
                    let a = r.below(d.len() as u64) as usize;
                    let bb = r.below(d.len() as u64) as usize;
                    let l = r.below(16) as usize;
                    for k in 0..l {
                        if a + k < d.len() && bb + k < d.len() {
                            d[a + k] = d[bb + k];
                        }
                    }
                }
                4 => {
                    let n = r.below(64) as usize;
                    let extra = r.bytes(n);
                    d.extend_from_slice(&extra);
                }
                _ => {
                    // overwrite a 16 bit big-endian field at an even offset with a boundary value
                    let i = (r.below(d.len() as u64 / 2 + 1) as usize) * 2;
                    if i + 2 <= d.len() {
                        let v = *r.pick(&[0u16, 1, 7, 8, 19, 20, 0x00ff, 0x0100, 0x7fff, 0x8000, 0xfffe, 0xffff]);
                        d[i..i + 2].copy_from_slice(&v.to_be_bytes());
                    }
                }
            }
        }
        out.push(("mutated".into(), d));
    }
}

// ------------------------------------------------------------------------------------------------
// stage 1: the receive path of a real channel, one datagram at a time

fn stage1(seed: u64, job: usize, cfg: Cfg, shard: usize, shards: usize, tier: Tier) -> Outcome {
    let mut o = Outcome::default();
    let mut r = Prng::new(seed ^ (job as u64).wrapping_mul(0x9E37_79B9_7F4A_7C15) ^ 0xC04);
    let mut dgrams = Vec::new();
    sweep_datagrams(&cfg, shard, shards, tier, &mut dgrams);
    random_datagrams(&cfg, &mut r, tier.pick(4_000, 150_000), &mut dgrams);
    let site = cfg.name();
    let topo = Topology { hops: Vec::new(), target: HopSpec::simple(cfg.target(), 1_000_000), tcp: TcpMode::Silent };
    let world = World::new(world_cfg(topo, seed));
    let guard = world.attach(0);
    let mut channel = match Channel::<SocketImpl>::connect(&cfg.channel_config()) {
        Ok(c) => c,
        Err(e) => {
            o.harness_error = Some(format!("channel connect failed: {e}"));
            return o;
        }
    };
    let src = scen::hop_addr(cfg.v6, 3, 0);
    let (mut some, mut none, mut err) = (0u64, 0u64, 0u64);
    for (label, d) in &dgrams {
        let now = world.now();
        world.inner.lock().unwrap().inject(now, cfg.v6, d.clone(), src, PktClass::Noise);
        o.hit("recv_probe_returns");
        match guarded(|| channel.recv_probe()) {
            Ok(Ok(Some(_))) => some += 1,
            Ok(Ok(None)) => none += 1,
            Ok(Err(_)) => err += 1,
            Err(p) => {
                report_panic(&mut o, &p, &site, label, d, seed, job);
                // the channel may be in any state after a panic: rebuild it
                channel = match Channel::<SocketImpl>::connect(&cfg.channel_config()) {
                    Ok(c) => c,
                    Err(_) => break,
                };
            }
        }
        o.observe("sweeps", label.clone());
    }
    drop(channel);
    drop(guard);
    o.count("datagrams_fed_to_recv_probe", dgrams.len() as u64);
    o.count("outcome_response", some);
    o.count("outcome_nothing", none);
    o.count("outcome_error_value", err);
    if some > 0 && err > 0 {
        o.nontrivial = Some(format!("{site}#stage1#{shard}"));
    }
    if job < 2 {
        o.sample = Some(json!({"stage": 1, "config": site, "examples": dgrams.iter().step_by(dgrams.len() / 6 + 1).take(6).map(|(l, d)| json!({"sweep": l, "len": d.len(), "hex": wire::hex(&d[..d.len().min(48)])})).collect::<Vec<_>>()}));
    }
    o
}

fn report_panic(o: &mut Outcome, p: &Panic, site: &str, label: &str, d: &[u8], seed: u64, job: usize) {
    if p.in_repo() {
        o.violate(
            "no_panic",
            format!("{site}|{}", p.site()),
            format!("[{label}] panic at {}:{}: {}", p.file, p.line, p.message),
            json!({"how": format!("vcheck C04 --seed {seed} --only {job}"), "scenario": job, "config": site, "sweep": label, "datagram_hex": wire::hex(d)}),
        );
    } else {
        o.harness_error = Some(format!("harness panic at {}:{}: {}", p.file, p.line, p.message));
    }
}

// ------------------------------------------------------------------------------------------------
// stage 2: hostile datagrams injected into a running tracer

fn stage2(seed: u64, job: usize, tier: Tier) -> Outcome {
    let mut o = Outcome::default();
    let mut r = Prng::new(seed ^ (job as u64).wrapping_mul(0xD134_2543_DE82_EF95) ^ 0x2C04);
    let cells = scen::all_cells(false);
    let cell: Cell = cells[job % cells.len()];
    let cfg = Cfg { protocol: cell.protocol, v6: cell.v6, ext: cell.ext };
    let mut tcfg = cell.trace_cfg();
    tcfg.min_round = ms(30);
    tcfg.max_round = ms(30);
    tcfg.grace = ms(1);
    tcfg.read_timeout = ms(1);
    tcfg.tcp_connect_timeout = ms(30);
    tcfg.max_rounds = Some(tier.pick(10, 60));
    tcfg.max_ttl = 12;
    tcfg.initial_sequence = *r.pick(&[0u16, 33434, 64_511]);
    let dist = r.range(1, 8) as usize;
    let hops: Vec<HopSpec> = (0..dist - 1)
        .map(|h| {
            let mut s = HopSpec::simple(scen::hop_addr(cell.v6, h, 0), 500_000);
            s.quote = Quote::Full;
            s
        })
        .collect();
    let mut t = HopSpec::simple(tcfg.target, 700_000);
    t.quote = Quote::Full;
    let topo = Topology { hops, target: t, tcp: TcpMode::Rst };
    let wcfg = world_cfg(topo, seed ^ job as u64);
    let site = cell.name();
    let replay = json!({"how": format!("vcheck C04 --seed {seed} --only t{job}"), "scenario": format!("t{job}"), "cell": site});
    let injected = Arc::new(std::sync::atomic::AtomicU64::new(0));
    let inj2 = injected.clone();
    let fields_only = (job / cells.len()) % 2 == 1;
    let res = guarded(|| {
        let world = World::new(wcfg.clone());
        let tc = tcfg.clone();
        let v6 = cell.v6;
        let src = scen::hop_addr(v6, 0, 0);
        world.inner.lock().unwrap().inject_on_send.push(Box::new(move |wp, r| {
            // mutate the quotation of the genuine probe: the sequence and identity stay plausible
            let mut out = Vec::new();
            let mut pool = Vec::new();
            // (a datagram the parsers reject ends the run with an error value, which is allowed; so
            // that the state machine is also exercised for whole runs, every other job sends only
            // quotations that are intact except for one field)
            if !fields_only {
                random_datagrams(&cfg, r, 3, &mut pool);
            }
            for (_, d) in pool {
                out.push(forge::injected(r.range(1_000, 20_000_000), v6, d, src, PktClass::Noise));
            }
            // the real probe quoted with one field destroyed
            let mut transit = wp.bytes.clone();
            if !transit.is_empty() && !fields_only {
                let i = r.below(transit.len() as u64) as usize;
                transit[i] = r.below(256) as u8;
                let q = forge::truncate_quote(&transit, v6);
                let (bytes, s) = forge::icmp_error(v6, src, scen::HOST_V4, scen::host_v6(), r.chance(1, 2), &q[..r.range(0, q.len() as u64) as usize], 0);
                out.push(forge::injected(r.range(1_000, 5_000_000), v6, bytes, s, PktClass::Noise));
            }
            // the real probe quoted in full with one 16 bit field set to a boundary value (length,
            // checksum, identification, port ... whatever lives there): everything else still
            // identifies the probe, so the datagram gets as far into the receive path as possible
            let mut transit = wp.bytes.clone();
            if transit.len() >= 2 {
                let i = 2 * r.below((transit.len().min(64) / 2) as u64) as usize;
                let v = match r.below(10) {
                    0 => 0u16,
                    1 => 1,
                    2 => 7,
                    3 => 8,
                    4 => 0x7fff,
                    5 => 0x8000,
                    6 => 0xfffe,
                    7 => 0xffff,
                    _ => r.below(65_536) as u16,
                };
                transit[i..i + 2].copy_from_slice(&v.to_be_bytes());
                let q = forge::truncate_quote(&transit, v6);
                let (bytes, s) = forge::icmp_error(v6, src, scen::HOST_V4, scen::host_v6(), r.chance(1, 2), &q, 0);
                out.push(forge::injected(r.range(1_000, 5_000_000), v6, bytes, s, PktClass::Noise));
            }
            let _ = &tc;
            inj2.fetch_add(out.len() as u64, std::sync::atomic::Ordering::Relaxed);
            out
        }));
        let tracer = tcfg.builder().build().map_err(|e| format!("build: {e}"))?;
        Ok::<_, String>(run_tracer(&world, 0, &tracer, &RunOpts { snapshots: false }))
    });
    o.hit("tracer_survives_hostile_datagrams");
    match res {
        Ok(Ok(run)) => {
            o.count("tracer_runs_ok", u64::from(run.result.is_ok()));
            o.count("tracer_runs_ended_with_error_value", u64::from(run.result.is_err()));
            if let Err(e) = &run.result {
                o.observe("errors_that_ended_a_tracer_run", e.chars().take(70).collect::<String>());
            }
            o.count(if fields_only { "tracer_runs_with_field_mutations_only" } else { "tracer_runs_with_all_mutations" }, 1);
            o.count("rounds_published_by_running_tracers", run.rounds.len() as u64);
            o.nontrivial = Some(format!("{site}#stage2#{}#{fields_only}", run.result.is_ok()));
        }
        Ok(Err(e)) => o.harness_error = Some(e),
        Err(p) if p.in_repo() => o.violate("no_panic", format!("{site}|{}", p.site()), format!("[tracer] panic at {}:{}: {}", p.file, p.line, p.message), replay),
        Err(p) => o.harness_error = Some(format!("harness panic {}:{} {}", p.file, p.line, p.message)),
    }
    o.count("datagrams_injected_into_running_tracers", injected.load(std::sync::atomic::Ordering::Relaxed));
    o
}

// ------------------------------------------------------------------------------------------------
// stage 3: every accessor of every packet view over arbitrary buffers

macro_rules! view_debug {
    ($ty:ty, $buf:expr, $name:expr, $hits:expr) => {{
        if let Ok(v) = <$ty>::new_view($buf) {
            $hits.push(($name, guarded(|| format!("{v:?}").len()).err()));
        }
    }};
}

/// Exercise every view; returns (type, panic) for every accessor group that was run.
pub fn exercise_views(buf: &[u8]) -> Vec<(&'static str, Option<Panic>)> {
    let mut h: Vec<(&'static str, Option<Panic>)> = Vec::new();
    let cap = buf.len() / 4 + 2;
    view_debug!(Ipv4Packet<'_>, buf, "Ipv4Packet", h);
    view_debug!(Ipv6Packet<'_>, buf, "Ipv6Packet", h);
    view_debug!(UdpPacket<'_>, buf, "UdpPacket", h);
    view_debug!(TcpPacket<'_>, buf, "TcpPacket", h);
    view_debug!(icmpv4::IcmpPacket<'_>, buf, "icmpv4::IcmpPacket", h);
    view_debug!(icmpv4::echo_request::EchoRequestPacket<'_>, buf, "icmpv4::EchoRequestPacket", h);
    view_debug!(icmpv4::echo_reply::EchoReplyPacket<'_>, buf, "icmpv4::EchoReplyPacket", h);
    view_debug!(icmpv4::time_exceeded::TimeExceededPacket<'_>, buf, "icmpv4::TimeExceededPacket", h);
    view_debug!(icmpv4::destination_unreachable::DestinationUnreachablePacket<'_>, buf, "icmpv4::DestinationUnreachablePacket", h);
    view_debug!(icmpv6::IcmpPacket<'_>, buf, "icmpv6::IcmpPacket", h);
    view_debug!(icmpv6::echo_request::EchoRequestPacket<'_>, buf, "icmpv6::EchoRequestPacket", h);
    view_debug!(icmpv6::echo_reply::EchoReplyPacket<'_>, buf, "icmpv6::EchoReplyPacket", h);
    view_debug!(icmpv6::time_exceeded::TimeExceededPacket<'_>, buf, "icmpv6::TimeExceededPacket", h);
    view_debug!(icmpv6::destination_unreachable::DestinationUnreachablePacket<'_>, buf, "icmpv6::DestinationUnreachablePacket", h);
    view_debug!(ExtensionHeaderPacket<'_>, buf, "ExtensionHeaderPacket", h);
    view_debug!(ExtensionObjectPacket<'_>, buf, "ExtensionObjectPacket", h);
    view_debug!(MplsLabelStackMemberPacket<'_>, buf, "MplsLabelStackMemberPacket", h);
    // accessors that Debug does not reach, and the iterators (capped)
    if let Ok(v) = Ipv4Packet::new_view(buf) {
        h.push(("Ipv4Packet::payload/options", guarded(|| v.payload().len() + v.get_options_raw().len() + v.packet().len()).err()));
    }
    if let Ok(v) = TcpPacket::new_view(buf) {
        h.push(("TcpPacket::payload/options", guarded(|| v.payload().len() + v.get_options_raw().len()).err()));
    }
    if let Ok(v) = Ipv6Packet::new_view(buf) {
        h.push(("Ipv6Packet::payload", guarded(|| v.payload().len()).err()));
    }
    if let Ok(v) = icmpv4::time_exceeded::TimeExceededPacket::new_view(buf) {
        h.push(("icmpv4::TimeExceededPacket::split", guarded(|| split_ok(buf, v.payload(), v.extension(), v.payload_raw())).err()));
    }
    if let Ok(v) = icmpv4::destination_unreachable::DestinationUnreachablePacket::new_view(buf) {
        h.push(("icmpv4::DestinationUnreachablePacket::split", guarded(|| split_ok(buf, v.payload(), v.extension(), v.payload_raw())).err()));
    }
    if let Ok(v) = icmpv6::time_exceeded::TimeExceededPacket::new_view(buf) {
        h.push(("icmpv6::TimeExceededPacket::split", guarded(|| split_ok(buf, v.payload(), v.extension(), v.payload_raw())).err()));
    }
    if let Ok(v) = icmpv6::destination_unreachable::DestinationUnreachablePacket::new_view(buf) {
        h.push(("icmpv6::DestinationUnreachablePacket::split", guarded(|| split_ok(buf, v.payload(), v.extension(), v.payload_raw())).err()));
    }
    if let Ok(v) = ExtensionsPacket::new_view(buf) {
        h.push((
            "ExtensionsPacket::objects",
            guarded(|| {
                let n = v.objects().take(cap + 1).count();
                assert!(n <= cap, "extension object iteration did not terminate within {cap} items");
                v.header().len()
            })
            .err(),
        ));
    }
    if let Ok(v) = MplsLabelStackPacket::new_view(buf) {
        h.push((
            "MplsLabelStackPacket::members",
            guarded(|| {
                let n = v.members().take(cap + 1).count();
                assert!(n <= cap, "label stack iteration did not terminate within {cap} items");
                n
            })
            .err(),
        ));
    }
    h
}

/// The quoted datagram and the extension lie inside the message and do not overlap.
fn split_ok(buf: &[u8], payload: &[u8], ext: Option<&[u8]>, raw: &[u8]) -> usize {
    let base = buf.as_ptr() as usize;
    let inside = |s: &[u8]| s.is_empty() || (s.as_ptr() as usize >= base && s.as_ptr() as usize + s.len() <= base + buf.len());
    assert!(inside(payload) && inside(raw), "payload outside of the message");
    if let Some(e) = ext {
        assert!(inside(e), "extension outside of the message");
        let (ps, pe) = (payload.as_ptr() as usize, payload.as_ptr() as usize + payload.len());
        let (es, ee) = (e.as_ptr() as usize, e.as_ptr() as usize + e.len());
        assert!(pe <= es || ee <= ps || payload.is_empty() || e.is_empty(), "payload and extension overlap");
    }
    payload.len()
}

fn stage3(seed: u64, job: usize, tier: Tier) -> Outcome {
    let mut o = Outcome::default();
    let mut r = Prng::new(seed ^ (job as u64).wrapping_mul(0xA24B_AED4_963E_E407) ^ 0x3C04);
    let cfgs = configs();
    let n = tier.pick(3_000, 120_000);
    let mut by_type: std::collections::BTreeMap<&'static str, u64> = std::collections::BTreeMap::new();
    let mut check = |o: &mut Outcome, buf: &[u8], label: &str| {
        for (ty, p) in exercise_views(buf) {
            *by_type.entry(ty).or_insert(0) += 1;
            if let Some(p) = p {
                let site = if p.in_repo() { format!("{ty}|{}", p.site()) } else { format!("{ty}|oracle:{}", p.message.chars().take(40).collect::<String>()) };
                let clause = if p.in_repo() { "accessors_never_panic" } else { "slices_inside_message_and_iteration_terminates" };
                o.violate(clause, site, format!("[{label}] {ty}: panic at {}:{}: {}", p.file, p.line, p.message), json!({"how": format!("vcheck C04 --seed {seed} --only a{job}"), "scenario": format!("a{job}"), "view": ty, "buffer_hex": wire::hex(buf)}));
            }
        }
    };
    // every length 0..=64 of: zeros, ones, random; then structured and mutated datagrams
    if job == 0 {
        for len in 0..=80usize {
            for fill in [0u8, 0xff, 0x45, 0x0f] {
                check(&mut o, &vec![fill; len], "fill");
            }
            // every value of the first byte (version / IHL / data offset nibbles) and of byte 12 (TCP data offset)
            for b0 in 0..=255u8 {
                let mut v = vec![0u8; len];
                if len > 0 {
                    v[0] = b0;
                }
                if len > 12 {
                    v[12] = b0;
                }
                check(&mut o, &v, "first-byte");
            }
            // extension object / UDP length fields: every 16 bit value at offset 0 and 4 for short buffers
            if len <= 24 {
                for l in 0..=300u16 {
                    let mut v = vec![0u8; len];
                    if len >= 2 {
                        v[0..2].copy_from_slice(&l.to_be_bytes());
                    }
                    if len >= 6 {
                        v[4..6].copy_from_slice(&l.to_be_bytes());
                    }
                    check(&mut o, &v, "length-fields");
                }
            }
        }
    }
    for _ in 0..n {
        let cfg = *r.pick(&cfgs);
        let mut pool = Vec::new();
        random_datagrams(&cfg, &mut r, 1, &mut pool);
        let (_, d) = pool.pop().unwrap();
        // views over every suffix start that matters: the datagram, its ICMP message, the quote
        check(&mut o, &d, "datagram");
        let off = offsets(&cfg);
        if d.len() > off.icmp {
            check(&mut o, &d[off.icmp..], "icmp-message");
        }
        if d.len() > off.quote {
            check(&mut o, &d[off.quote..], "quotation");
        }
        let k = r.below(d.len() as u64 + 1) as usize;
        check(&mut o, &d[k..], "random-suffix");
    }
    for (ty, c) in &by_type {
        o.count(&format!("views_exercised:{ty}"), *c);
        o.observe("view_types", *ty);
    }
    o.hit_n("accessors_never_panic", by_type.values().sum());
    o.nontrivial = Some(format!("stage3#{job}"));
    if job == 0 {
        o.sample = Some(json!({"stage": 3, "view_types": by_type.keys().collect::<Vec<_>>()}));
    }
    o
}

pub fn run(tier: Tier, seed: u64, only: Option<String>) -> i32 {
    let mut rep = Report::new("C04", "exploration", tier, seed);
    rep.rule = "stage 1: for each of 12 protocol x family x extension-mode configurations a real Channel over the simulated socket is fed one datagram at a time through Network::recv_probe: systematic sweeps (truncation at every length, RFC 4884 length byte 0..255, outer and nested IHL 0..15, nested total / payload length, nested protocol, UDP length 0..2047 + boundaries, magic prefix with short lengths, extension object length 0..1100 + boundaries, extension version, MPLS depth 0..16 truncated at every octet, ICMP type 0..255) plus random bit / byte / splice / boundary-value mutations of valid responses and fully random bytes; stage 2: a running tracer (every cell) receives mutated copies of its own probes' quotations (one octet destroyed + random truncation; one 16 bit field set to a boundary value in an otherwise intact full quotation) and noise between genuine responses; stage 3: every public accessor, payload()/extension()/options, iterator (capped at len/4+2 items) and Debug impl of all 19 packet views over fills, every first-byte value at every length 0..80, 16 bit length fields 0..300 and mutated datagrams; outcome Err(..) is acceptable, a panic (incl. arithmetic overflow in this profile) is not; distinct by (configuration, stage, shard)".into();
    rep.assumptions = vec![
        "the strict profile (debug assertions and overflow checks on) is the primary run; ./check thorough repeats in the shipped profile".into(),
        "stage 1 builds its channel with privileged mode; the receive path does not depend on the privilege mode".into(),
    ];
    rep.required_clauses = vec!["recv_probe_returns", "tracer_survives_hostile_datagrams", "accessors_never_panic"];
    let cfgs = configs();
    let shards = tier.pick(3, 8);
    let n1 = cfgs.len() * shards;
    let n2 = tier.pick(2 * scen::all_cells(false).len(), 2_000);
    let n3 = tier.pick(16, 64);
    match only {
        Some(s) if s.starts_with('t') => rep.merge(stage2(seed, s[1..].parse().unwrap_or(0), tier)),
        Some(s) if s.starts_with('a') => {
            let o = stage3(seed, s[1..].parse().unwrap_or(0), tier);
            for v in o.violations.iter().take(10) {
                println!("{}: {}", v.signature(), v.detail);
            }
            rep.merge(o);
        }
        Some(s) => {
            let j: usize = s.parse().unwrap_or(0);
            let o = stage1(seed, j, cfgs[j % cfgs.len()], j / cfgs.len(), shards, tier);
            for v in o.violations.iter().take(10) {
                println!("{}: {}", v.signature(), v.detail);
            }
            rep.merge(o);
        }
        None => rep.run_parallel(n1 + n2 + n3, |i| {
            if i < n1 {
                stage1(seed, i, cfgs[i % cfgs.len()], i / cfgs.len(), shards, tier)
            } else if i < n1 + n2 {
                stage2(seed, i - n1, tier)
            } else {
                stage3(seed, i - n1 - n2, tier)
            }
        }),
    }
    rep.finish()
}

#[allow(dead_code)]
fn unused(_: MultipathStrategy, _: Value) {}
