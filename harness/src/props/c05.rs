//! C05 - per-hop statistics equal an independent re-aggregation of the rounds.
use crate::framework::{guarded, Outcome, Report, Tier};
use crate::prng::Prng;
use crate::reagg::{compare_flow, RefFlow};
use crate::synth;
use serde_json::json;
use std::net::{IpAddr, Ipv4Addr};
use std::time::{Duration, SystemTime};
use trippy_core::verif::{probe_new, StateConfig};
use trippy_core::{
    CompletionReason, Extension, Extensions, Flags, IcmpPacketType, MplsLabelStack, MplsLabelStackMember, Port, ProbeStatus, Round, RoundId, Sequence, State, TimeToLive, TraceId, TypeOfService,
    UnknownExtension,
};

/// Generate one round the way a strategy could have produced it.
pub fn gen_round(r: &mut Prng, k: usize, first: u8, max_n: u8, rtt_class: u64, nat: bool, single_path: bool) -> (Vec<ProbeStatus>, u8) {
    let n = r.below(u64::from(max_n) + 1) as u8;
    let t0 = SystemTime::UNIX_EPOCH + Duration::from_secs(1_700_000_000) + Duration::from_millis(k as u64 * 1000);
    let mut probes = Vec::new();
    let mut seq = 33_000u16.wrapping_add((k as u16).wrapping_mul(40));
    let mut ttl = first;
    let mut issued = 0u8;
    let loss = r.below(100);
    while issued < n && ttl <= 254 {
        let sent = t0 + Duration::from_micros(u64::from(issued) * 137);
        let p = probe_new(Sequence(seq), TraceId(7), Port(5000), Port(u16::from(ttl) + 33_000), TimeToLive(ttl), RoundId(k), sent, Flags::empty());
        seq = seq.wrapping_add(1);
        let roll = r.below(100);
        if roll < 4 && issued > 0 {
            probes.push(ProbeStatus::Skipped);
            continue; // re-issue at the same ttl
        }
        let st = if roll < 8 {
            ProbeStatus::Failed(synth::failed(p))
        } else if roll < 8 + loss / 2 {
            ProbeStatus::Awaited(p)
        } else {
            let rtt = match rtt_class {
                0 => Duration::ZERO,
                1 => Duration::from_nanos(r.range(1, 2_000_000)),
                2 => Duration::from_micros(r.range(100, 300_000)),
                3 => Duration::from_millis(r.range(0, 10_000)),
                _ => Duration::from_nanos(r.range(0, 5_000_000_000)),
            };
            let host = IpAddr::V4(Ipv4Addr::new(10, ttl, if single_path { 0 } else { r.below(3) as u8 }, 1));
            let kind = match r.below(4) {
                0 => IcmpPacketType::TimeExceeded(trippy_core::verif::IcmpPacketCode(0)),
                1 => IcmpPacketType::EchoReply(trippy_core::verif::IcmpPacketCode(0)),
                2 => IcmpPacketType::Unreachable(trippy_core::verif::IcmpPacketCode(r.below(16) as u8)),
                _ => IcmpPacketType::NotApplicable,
            };
            let tos = if r.chance(1, 2) { Some(TypeOfService(r.below(256) as u8)) } else { None };
            let (e, a) = if nat {
                let base = 0x1234u16;
                (Some(base), Some(if r.chance(1, 4) { base ^ (r.below(3) as u16 + 1) } else { base }))
            } else {
                (None, None)
            };
            let ext = if r.chance(1, 5) {
                Some(Extensions {
                    extensions: vec![if r.chance(1, 2) {
                        Extension::Mpls(MplsLabelStack { members: vec![MplsLabelStackMember { label: r.below(1 << 20) as u32, exp: r.below(8) as u8, bos: 1, ttl: r.below(256) as u8 }] })
                    } else {
                        Extension::Unknown(UnknownExtension { class_num: 9, class_subtype: 1, bytes: r.bytes(4) })
                    }],
                })
            } else {
                None
            };
            // (now and then the wall clock is stepped back while the probe is in flight: the
            // response is stamped earlier than the probe - a round-trip time of zero, not an error)
            let received = if r.chance(1, 40) { sent - Duration::from_millis(r.range(1, 5_000)) } else { sent + rtt };
            ProbeStatus::Complete(synth::complete(p, host, received, kind, tos, e, a, ext))
        };
        probes.push(st);
        issued += 1;
        if ttl == 254 {
            break;
        }
        ttl += 1;
    }
    // (a published round never contains NotSent slots: Round.probes is the issued range)
    let highest = first.saturating_add(issued).saturating_sub(1);
    let largest = if issued == 0 || r.chance(1, 12) { 0 } else { r.range(u64::from(first), u64::from(highest.max(first))) as u8 };
    (probes, largest)
}

fn history(seed: u64, i: usize, tier: Tier) -> Outcome {
    history_focus(seed, i, tier, None)
}

/// The same histories judged for one getter only (`focus`): used by the property that owns it.
pub fn history_focus(seed: u64, i: usize, tier: Tier, focus: Option<&'static str>) -> Outcome {
    let mut o = Outcome::default();
    let mut r = Prng::new(seed ^ (i as u64).wrapping_mul(0x9E37_79B9_7F4A_7C15) ^ 0xC05);
    let max_samples = *r.pick(&[0usize, 1, 2, 10, 256]);
    let first = *r.pick(&[1u8, 1, 1, 2, 9, 100, 200, 254]);
    let max_n = *r.pick(&[1u8, 5, 30]);
    let rtt_class = r.below(5);
    let nat = r.chance(1, 3) || focus == Some("last_nat_status");
    let long = focus.is_none() && tier == Tier::Thorough && i % 2000 == 0;
    let rounds = if long { 100_000 } else { r.range(1, tier.pick(50, 400)) as usize };
    let site = format!("samples{max_samples}/first{first}/rtt{rtt_class}");
    let replay = json!({"how": format!("vcheck C05 --seed {seed} --only {i}"), "scenario": i, "max_samples": max_samples, "first_ttl": first, "rounds": rounds});
    // one history in three follows a single path with room for many flows: every round is then
    // attributed to flow 1, whose hops must show the same statistics as the default flow
    let single_path = i % 3 == 0;
    let mut state = State::new(StateConfig { max_samples, max_flows: if single_path { 64 } else { 1 } });
    let mut reference = RefFlow::default();
    let check_every = if long { 9973 } else { 1 };
    let mut first_rounds = Vec::new();
    for k in 0..rounds {
        let (probes, largest) = gen_round(&mut r, k, first, max_n, rtt_class, nat, single_path);
        if first_rounds.len() < 2 {
            first_rounds.push(json!({"largest_ttl": largest, "probes": probes.iter().map(crate::e2e::status_name).collect::<Vec<_>>()}));
        }
        let round = Round::new(&probes, TimeToLive(largest), CompletionReason::TargetFound);
        if let Err(p) = guarded(|| state.update_from_round(&round)) {
            o.violate("update_never_panics", format!("{site}|{}", p.site()), format!("round {k}: panic at {}:{}: {}", p.file, p.line, p.message), replay.clone());
            return o;
        }
        reference.apply(&probes, largest);
        if k % check_every == 0 || k + 1 == rounds {
            o.hit("state_equals_reaggregation");
            let cmp = guarded(|| compare_flow(&state, State::default_flow_id(), &reference, max_samples));
            match cmp {
                Ok(diffs) => {
                    let diffs: Vec<_> = diffs.into_iter().filter(|(f, _)| focus.is_none_or(|x| *f == x)).collect();
                    if let Some((f, d)) = diffs.first() {
                        let clause = if f.starts_with("law:") { "conservation_laws" } else { "state_equals_reaggregation" };
                        o.violate(clause, format!("{f}"), format!("after round {k}: {d} (+{} more fields: {:?})", diffs.len() - 1, diffs.iter().skip(1).take(5).map(|x| x.0).collect::<Vec<_>>()), replay.clone());
                        return o;
                    }
                    o.hit("conservation_laws");
                    if single_path && state.flows().len() == 1 && state.round_count(trippy_core::FlowId(1)) == k + 1 {
                        o.hit("per_flow_state_equals_reaggregation");
                        match guarded(|| compare_flow(&state, trippy_core::FlowId(1), &reference, max_samples)) {
                            Ok(d) => {
                                if let Some((f, d0)) = d.first() {
                                    o.violate("per_flow_state_equals_reaggregation", format!("{f}"), format!("after round {k}: flow 1 (all rounds follow one path): {d0}"), replay.clone());
                                    return o;
                                }
                            }
                            Err(p) => {
                                o.violate("getters_never_panic", format!("{site}|flow1|{}", p.site()), format!("after round {k}: panic at {}:{}: {}", p.file, p.line, p.message), replay.clone());
                                return o;
                            }
                        }
                    }
                }
                Err(p) => {
                    o.violate("getters_never_panic", format!("{site}|{}", p.site()), format!("after round {k}: panic at {}:{}: {}", p.file, p.line, p.message), replay.clone());
                    return o;
                }
            }
        }
    }
    o.count("rounds_applied", rounds as u64);
    let hops = state.hops().len();
    o.count("hops_compared_final", hops as u64);
    o.observe("history_shapes", site.clone());
    if hops > 0 {
        o.nontrivial = Some(format!("{site}|n{max_n}|nat{nat}|{rounds}"));
    }
    if i < 2 {
        o.sample = Some(json!({"scenario": i, "shape": site, "rounds": rounds, "first_rounds": first_rounds,
            "final_hops": state.hops().iter().take(3).map(|h| json!({"ttl": h.ttl(), "sent": h.total_sent(), "recv": h.total_recv(), "failed": h.total_failed(), "loss_pct": h.loss_pct(), "avg_ms": h.avg_ms(), "stddev_ms": h.stddev_ms(), "jinta": h.jinta()})).collect::<Vec<_>>()}));
    }
    o
}

pub fn run(tier: Tier, seed: u64, only: Option<usize>) -> i32 {
    let mut rep = Report::new("C05", "exploration", tier, seed);
    rep.rule = "history = 1..400 synthetic rounds (thorough: plus histories of 100 000 rounds) through the public State::update_from_round, each round shaped like a strategy round: ttl ascending from first-ttl in {1,2,9,100,200,254}, up to 30 probes, mixes of complete / awaited / failed / skipped(+re-issue) (a published round never contains not-sent slots), RTT classes {0, ns..2ms, 0.1..300ms, 0..10s, 0..5s ns-granular} and one response in 40 stamped before its probe (the wall clock stepped back), several responders per hop, tos, extensions, Dublin checksums with NAT-like changes, sample limits {0,1,2,10,256}; after every round (long histories: every 9973rd) every getter of every hop is compared with a non-incremental recomputation and the conservation laws are asserted separately; the rounds published by the real strategy are compared the same way in C01; distinct by (sample limit, first ttl, RTT class, round size, NAT, length)".into();
    rep.assumptions = vec![
        "loss classification follows RELEASES.md 0.12 (forward loss needs at least one later probe in the round and every later probe lost; backward loss needs an earlier forward loss); the jitter series starts from rtt_0 := 0 as pinned by the repository's own scenario files".into(),
        "floating point fields are compared with 2e-6 ms absolute (1ns rounding of stored durations) or 1e-9 relative tolerance".into(),
    ];
    rep.required_clauses = vec!["state_equals_reaggregation", "conservation_laws"];
    let n = tier.pick(50_000, 200_000);
    match only {
        Some(i) => {
            let o = history(seed, i, tier);
            for v in o.violations.iter().take(20) {
                println!("{}: {}", v.signature(), v.detail);
            }
            rep.merge(o);
        }
        None => rep.run_parallel(n, |i| history(seed, i, tier)),
    }
    rep.finish()
}
