//! The simulated world: a host with sockets, a network topology, an adversary, a fault plan and
//! a ground-truth event log.  `SimSocket` implements trippy's (hooked) socket interface.
use crate::clock::VClock;
use crate::prng::Prng;
use crate::wire::{self, ExtObject, Ip4, Ip6, Rfc4884, Udp, PROTO_ICMP, PROTO_ICMP6, PROTO_TCP, PROTO_UDP};
use std::collections::{BTreeMap, HashMap, HashSet};
use std::io;
use std::net::{IpAddr, Ipv4Addr, Ipv6Addr, SocketAddr};
use std::sync::{Arc, Condvar, Mutex};
use std::time::Duration;
use trippy_core::verif::{IoError, IoOperation, IoResult, SocketError, VerifSocket, VerifSocketKind};

pub type WireId = usize;
pub type PktId = usize;
pub type SockId = usize;

// ------------------------------------------------------------------------------------------------
// configuration

#[derive(Debug, Clone, Copy, PartialEq, Eq)]
pub enum Behaviour {
    Respond,
    Silent,
    /// Token bucket: `burst` tokens, one token refilled every `refill_ns`.
    RateLimit { burst: u32, refill_ns: u64 },
}

#[derive(Debug, Clone, Copy, PartialEq, Eq)]
pub enum Quote {
    /// IP header + 8 octets (RFC 792 minimum).
    Min8,
    /// IP header + n octets.
    Plus(usize),
    /// As much as possible (IPv4: whole datagram; IPv6: up to the 1280 minimum MTU).
    Full,
}

#[derive(Debug, Clone, Copy, PartialEq, Eq)]
pub struct NatSpec {
    pub new_src: Ipv4Addr,
    pub new_port: Option<u16>,
    /// A sloppy device that does not translate the source address inside quoted datagrams back
    /// on the return path (RFC 5508 asks for it, not every device does it).
    pub quote_keeps_new_src: bool,
}

#[derive(Debug, Clone)]
pub struct HopSpec {
    /// ECMP branches, chosen by a hash of the flow five-tuple.
    pub addrs: Vec<IpAddr>,
    pub behaviour: Behaviour,
    /// Response delay (round trip), uniform in [min, max] ns.
    pub delay_ns: (u64, u64),
    /// Percent of responses that are lost.
    pub loss_pct: u8,
    /// Percent of responses that are followed by a duplicate copy.
    pub dup_pct: u8,
    /// Extra delay of the duplicate copy.
    pub dup_delay_ns: (u64, u64),
    pub quote: Quote,
    /// TTL / hop limit value in the quoted header (routers see 1 or 0).
    pub q_ttl: u8,
    /// Recompute the quoted IPv4 header checksum (else leave the in-transit value).
    pub q_fix_csum: bool,
    /// Rewrite the TOS / traffic class of datagrams passing through this hop.
    pub tos_rewrite: Option<u8>,
    /// Put IPv4 options into the outer header of the response.
    pub outer_opts: bool,
    pub rfc4884: Rfc4884,
    pub ext: Vec<ExtObject>,
    /// This hop is a NAT device (IPv4 only): rewrites datagrams passing through (and quoted by) it.
    pub nat: Option<NatSpec>,
    /// ICMP code used in destination unreachable responses (target only).
    pub du_code: u8,
    /// A router that answers with Destination Unreachable instead of Time Exceeded (ICMPv4 code:
    /// 0 net, 1 host, 13 administratively prohibited; mapped to the ICMPv6 codes 0, 3, 1).
    pub router_unreach: Option<u8>,
}

impl HopSpec {
    pub fn simple(addr: IpAddr, delay_ns: u64) -> Self {
        Self {
            addrs: vec![addr],
            behaviour: Behaviour::Respond,
            delay_ns: (delay_ns, delay_ns),
            loss_pct: 0,
            dup_pct: 0,
            dup_delay_ns: (1_000, 1_000),
            quote: Quote::Min8,
            q_ttl: 1,
            q_fix_csum: true,
            tos_rewrite: None,
            outer_opts: false,
            rfc4884: Rfc4884::None,
            ext: Vec::new(),
            nat: None,
            du_code: 3,
            router_unreach: None,
        }
    }
}

#[derive(Debug, Clone, Copy, PartialEq, Eq)]
pub enum TcpMode {
    SynAck,
    Rst,
    Silent,
    /// The connection attempt to the target fails with this errno (not "connection refused").
    Fails(i32),
}

#[derive(Debug, Clone)]
pub struct Topology {
    /// Routers: `hops[i]` is at distance i+1.
    pub hops: Vec<HopSpec>,
    /// The target (at distance `hops.len() + 1`); `addrs[0]` is the target address.
    pub target: HopSpec,
    pub tcp: TcpMode,
}

impl Topology {
    pub fn distance(&self) -> u8 {
        (self.hops.len() + 1) as u8
    }
    pub fn target_addr(&self) -> IpAddr {
        self.target.addrs[0]
    }
}

/// Classes of adversarial packet.
#[derive(Debug, Clone, Copy, PartialEq, Eq, Hash, PartialOrd, Ord)]
pub enum Forgery {
    /// Quotation with another destination address.
    OtherDest,
    /// Quotation with another fixed port / other ICMP identifier (another tracer).
    OtherTracer,
    /// Quotation with another protocol number.
    OtherProto,
    /// Quotation of a sequence that was never sent, inside the round window.
    NeverSentInWindow,
    /// Quotation of a sequence that was never sent, outside the round window.
    NeverSentOutside,
    /// IPv6 Dublin: magic marker removed.
    NoMagic,
    /// A response whose type is not a probe response at all (e.g. echo request, redirect).
    OtherIcmpType,
    /// Time exceeded with a code other than "ttl expired in transit".
    OtherTeCode,
}

#[derive(Debug, Clone, Default)]
pub struct Adversary {
    /// For each class: percent of genuine responses that are accompanied by such a forgery.
    pub forgeries: Vec<(Forgery, u8)>,
    /// Forgery arrives this many ns before (negative) or after the genuine response.
    pub offset_ns: (i64, i64),
    /// Percent of genuine responses that are followed by a late copy ...
    pub late_pct: u8,
    /// ... arriving this much later (choose >= round duration to land in a later round).
    pub late_delay_ns: (u64, u64),
}

#[derive(Debug, Clone, Copy, PartialEq, Eq, Hash, PartialOrd, Ord)]
pub enum Op {
    NewSocket,
    Bind,
    SetTos,
    SetTtl,
    SetHops,
    Connect,
    SendTo,
    IsReadable,
    IsWritable,
    Read,
    RecvFrom,
    Shutdown,
    PeerAddr,
    TakeError,
}

/// A fault: make a socket call fail with a given errno.
#[derive(Debug, Clone, Copy, PartialEq, Eq)]
pub struct Fault {
    pub errno: i32,
}

#[derive(Debug, Clone, Default)]
pub struct FaultPlan {
    /// Faults keyed by the global (per world) index of the socket call.
    pub at_call: HashMap<usize, Fault>,
    /// Faults keyed by (op, n-th occurrence of that op).
    pub at_op: HashMap<(Op, usize), Fault>,
    /// Local TCP/UDP ports that are in use by "another process": bind fails with EADDRINUSE.
    pub ports_in_use: HashSet<u16>,
    /// Percent of binds (on stream sockets) that fail with EADDRINUSE.
    pub bind_in_use_pct: u8,
    /// Every `send_to` of a datagram with this TTL / hop limit fails with the errno (a route
    /// that rejects one particular hop distance: a persistent transient failure).
    pub send_fails_for_ttl: Option<(u8, i32)>,
}

#[derive(Debug, Clone)]
pub struct WorldCfg {
    pub host_v4: Ipv4Addr,
    pub host_v6: Ipv6Addr,
    pub topo: Topology,
    pub adversary: Adversary,
    pub faults: FaultPlan,
    pub seed: u64,
    /// Number of tracer threads sharing this world (baton scheduling if > 1).
    pub tracers: usize,
    /// Further addresses that answer as targets at the end of the same path.
    pub alt_targets: Vec<IpAddr>,
    /// Intervals (virtual ns since the virtual epoch) during which the network drops everything.
    pub blackouts: Vec<(u64, u64)>,
    /// Route changes: from the given instant (virtual ns since the virtual epoch) the path to the
    /// target is the given topology (same target address).
    pub reroutes: Vec<(u64, Topology)>,
    /// Uneven ECMP: half of the flows (by five-tuple hash) cross this many additional routers
    /// before they reach the target.
    pub long_branch_extra: u8,
}

// ------------------------------------------------------------------------------------------------
// ground truth

#[derive(Debug, Clone, Copy, PartialEq, Eq)]
pub enum RespKind {
    TimeExceeded(u8),
    DestUnreach(u8),
    EchoReply,
    TcpSynAck,
    TcpRst,
    /// The connection attempt failed with another error (timed out, network unreachable ...):
    /// the socket becomes writable with that error pending; trippy ignores it (no response).
    TcpError(i32),
}

#[derive(Debug, Clone, PartialEq, Eq)]
pub enum PktClass {
    /// A genuine response to wire packet `wire`.
    Genuine { copy: u8 },
    /// A late copy of a genuine response.
    Late,
    Forged(Forgery),
    /// Arbitrary bytes (C04).
    Noise,
}

/// A datagram a tracer put on the wire (as it leaves the host).
#[derive(Debug, Clone)]
pub struct WirePacket {
    pub id: WireId,
    pub t: u64,
    pub tracer: usize,
    pub sock: SockId,
    /// Full IP datagram as it leaves the host (kernel-built fields filled in).
    pub bytes: Vec<u8>,
    /// The buffer exactly as passed to `send_to` (None for TCP connect).
    pub sent_buf: Option<Vec<u8>>,
    pub v6: bool,
    pub proto: u8,
    pub ttl: u8,
    pub tos: u8,
    pub dst: IpAddr,
    /// UDP checksum as sent (for NAT ground truth).
    pub udp_csum: Option<u16>,
}

/// A packet generated towards the host.
#[derive(Debug, Clone)]
pub struct InPacket {
    pub id: PktId,
    pub arrive: u64,
    pub v6: bool,
    /// IPv4: full IP datagram.  IPv6: the ICMPv6 message (no IP header).
    pub bytes: Vec<u8>,
    /// Source address of the packet.
    pub src: IpAddr,
    pub class: PktClass,
    /// The wire packet this responds to / was derived from.
    pub wire: Option<WireId>,
    pub kind: Option<RespKind>,
    /// UDP checksum in the quoted datagram (NAT ground truth).
    pub quoted_udp_csum: Option<u16>,
    /// The extension objects encoded in the message.
    pub ext: Vec<ExtObject>,
    /// TOS in the quoted datagram.
    pub quoted_tos: Option<u8>,
}

#[derive(Debug, Clone)]
pub enum Ev {
    NewSocket { kind: VerifSocketKind },
    Bind { addr: SocketAddr },
    SetTos { tos: u32 },
    SetTtl { ttl: u32 },
    SetHops { hops: u8 },
    Connect { addr: SocketAddr, wire: Option<WireId> },
    SendTo { addr: SocketAddr, len: usize, wire: Option<WireId> },
    IsReadable { timeout_ns: u64, ready: bool, t_ret: u64 },
    IsWritable { ready: bool },
    Read { pkt: Option<PktId>, n: usize },
    RecvFrom { pkt: Option<PktId>, n: usize },
    Shutdown,
    PeerAddr,
    TakeError { outcome: Option<RespKind>, wire: Option<WireId> },
    Other(&'static str),
}

#[derive(Debug, Clone)]
pub struct LogEntry {
    pub idx: usize,
    pub t: u64,
    pub tracer: usize,
    pub sock: SockId,
    pub op: Op,
    pub ev: Ev,
    /// errno if the call failed.
    pub err: Option<i32>,
}

#[derive(Debug, Clone)]
struct SockState {
    kind: VerifSocketKind,
    tracer: usize,
    bound: Option<SocketAddr>,
    ttl: u32,
    tos: u32,
    hops: u8,
    /// Arrival-ordered queue for receive sockets: (arrive, pkt).
    queue: BTreeMap<(u64, PktId), ()>,
    /// TCP: the SYN wire packet, outcome and the instant it becomes known.
    tcp: Option<TcpConn>,
    closed: bool,
}

#[derive(Debug, Clone)]
struct TcpConn {
    wire: WireId,
    peer: SocketAddr,
    outcome: Option<(u64, RespKind)>,
    error_taken: bool,
}

pub struct WorldInner {
    pub cfg: WorldCfg,
    pub log: Vec<LogEntry>,
    socks: Vec<SockState>,
    pub wires: Vec<WirePacket>,
    pub pkts: Vec<InPacket>,
    rng: Prng,
    call_idx: usize,
    op_counts: HashMap<Op, usize>,
    /// rate limiter state per hop index: (tokens, last refill instant)
    buckets: HashMap<usize, (u32, u64)>,
    isn: u32,
    /// Extra packets to inject: (arrive, v6, bytes, src) - used by C04 and adversarial scripts.
    pub inject_on_send: Vec<Box<dyn FnMut(&WirePacket, &mut Prng) -> Vec<Injected> + Send>>,
    /// Virtual-time budget of the run: once the clock passes it every socket call fails (ETIME),
    /// so that a tracer that never finishes its rounds is decided on logical time, not by the
    /// wall-clock watchdog.
    pub virtual_deadline: Option<u64>,
    pub deadline_hit: bool,
    last_t: u64,
}

/// A packet injected by a script.
pub struct Injected {
    pub delay_ns: u64,
    pub v6: bool,
    pub bytes: Vec<u8>,
    pub src: IpAddr,
    pub class: PktClass,
}

struct SchedState {
    active: HashSet<usize>,
    running: Option<usize>,
    waiting: BTreeMap<usize, u64>,
}

pub struct World {
    pub clock: Arc<VClock>,
    pub inner: Mutex<WorldInner>,
    sched: Mutex<SchedState>,
    cv: Condvar,
}

thread_local! {
    static CURRENT: std::cell::RefCell<Option<(Arc<World>, usize)>> = const { std::cell::RefCell::new(None) };
}

/// Attach the current thread to a world as tracer `tracer`; installs the socket factory and the
/// virtual clock for this thread.  Returns a guard.
pub struct WorldGuard {
    _clock: crate::clock::Attached,
    world: Arc<World>,
    tracer: usize,
}

impl Drop for WorldGuard {
    fn drop(&mut self) {
        self.world.leave(self.tracer);
        trippy_core::verif::set_thread_socket_factory(None);
        CURRENT.with(|c| *c.borrow_mut() = None);
    }
}

impl World {
    pub fn new(cfg: WorldCfg) -> Arc<Self> {
        let rng = Prng::new(cfg.seed ^ 0x5157_4f52_4c44);
        let n = cfg.tracers.max(1);
        Arc::new(Self {
            clock: VClock::new(),
            inner: Mutex::new(WorldInner {
                cfg,
                log: Vec::new(),
                socks: Vec::new(),
                wires: Vec::new(),
                pkts: Vec::new(),
                rng,
                call_idx: 0,
                op_counts: HashMap::new(),
                buckets: HashMap::new(),
                isn: 0x1000_0000,
                inject_on_send: Vec::new(),
                virtual_deadline: None,
                deadline_hit: false,
                last_t: 0,
            }),
            sched: Mutex::new(SchedState {
                active: (0..n).collect(),
                running: None,
                waiting: BTreeMap::new(),
            }),
            cv: Condvar::new(),
        })
    }

    pub fn attach(self: &Arc<Self>, tracer: usize) -> WorldGuard {
        let clock = crate::clock::attach(&self.clock);
        let w = self.clone();
        CURRENT.with(|c| *c.borrow_mut() = Some((self.clone(), tracer)));
        let wf = self.clone();
        trippy_core::verif::set_thread_socket_factory(Some(Arc::new(move |kind| {
            let (world, tracer) = CURRENT
                .with(|c| c.borrow().clone())
                .unwrap_or_else(|| (wf.clone(), 0));
            SimSocket::create(&world, tracer, kind)
        })));
        // enter the baton scheduler (deterministic start order for multi tracer worlds)
        let now = self.clock.peek();
        self.block_until(tracer, now);
        WorldGuard {
            _clock: clock,
            world: w,
            tracer,
        }
    }

    pub fn now(&self) -> u64 {
        self.clock.peek()
    }

    fn multi(&self) -> bool {
        self.sched.lock().unwrap().active.len() > 1
    }

    /// Block tracer `me` until virtual time `wake`: gives the baton to whichever tracer wakes first.
    fn block_until(&self, me: usize, wake: u64) {
        let mut st = self.sched.lock().unwrap();
        if st.active.len() <= 1 {
            st.running = Some(me);
            drop(st);
            self.clock.advance_to(wake);
            return;
        }
        st.waiting.insert(me, wake);
        if st.running == Some(me) {
            st.running = None;
        }
        loop {
            if st.running.is_none() && st.active.iter().all(|t| st.waiting.contains_key(t)) {
                let (&next, &w) = st
                    .waiting
                    .iter()
                    .min_by_key(|(t, w)| (**w, **t))
                    .expect("no waiting tracer");
                if next == me {
                    st.waiting.remove(&me);
                    st.running = Some(me);
                    drop(st);
                    self.clock.advance_to(w);
                    return;
                }
                self.cv.notify_all();
            }
            st = self.cv.wait(st).unwrap();
        }
    }

    fn leave(&self, me: usize) {
        let mut st = self.sched.lock().unwrap();
        st.active.remove(&me);
        st.waiting.remove(&me);
        if st.running == Some(me) {
            st.running = None;
        }
        drop(st);
        self.cv.notify_all();
    }

    /// Lower the wake time of a waiting tracer (a packet was scheduled for it).
    fn nudge(&self, tracer: usize, arrive: u64) {
        let mut st = self.sched.lock().unwrap();
        if let Some(w) = st.waiting.get_mut(&tracer) {
            if arrive < *w {
                *w = arrive;
            }
        }
    }
}

fn os_err(errno: i32) -> io::Error {
    io::Error::from_raw_os_error(errno)
}

fn flow_hash(parts: &[u64]) -> u64 {
    let mut h: u64 = 0xcbf2_9ce4_8422_2325;
    for p in parts {
        for b in p.to_le_bytes() {
            h ^= u64::from(b);
            h = h.wrapping_mul(0x100_0000_01b3);
        }
    }
    h ^ (h >> 29)
}

fn addr_u64(a: IpAddr) -> u64 {
    match a {
        IpAddr::V4(a) => u64::from(u32::from(a)),
        IpAddr::V6(a) => {
            let o = a.octets();
            let mut x = 0u64;
            for (i, b) in o.iter().enumerate() {
                x ^= u64::from(*b) << ((i % 8) * 8);
            }
            x
        }
    }
}

impl WorldInner {
    fn uniform(&mut self, r: (u64, u64)) -> u64 {
        if r.1 <= r.0 {
            r.0
        } else {
            self.rng.range(r.0, r.1)
        }
    }

    fn log(&mut self, t: u64, tracer: usize, sock: SockId, op: Op, ev: Ev, err: Option<i32>) {
        self.last_t = self.last_t.max(t);
        let idx = self.log.len();
        self.log.push(LogEntry {
            idx,
            t,
            tracer,
            sock,
            op,
            ev,
            err,
        });
    }

    /// Decide whether this call is to fail by the fault plan.
    fn fault(&mut self, op: Op) -> Option<i32> {
        let call = self.call_idx;
        self.call_idx += 1;
        let n = {
            let c = self.op_counts.entry(op).or_insert(0);
            let n = *c;
            *c += 1;
            n
        };
        if self.virtual_deadline.is_some_and(|d| self.last_t > d) {
            self.deadline_hit = true;
            return Some(libc::ETIME);
        }
        if let Some(f) = self.cfg.faults.at_call.get(&call) {
            return Some(f.errno);
        }
        if let Some(f) = self.cfg.faults.at_op.get(&(op, n)) {
            return Some(f.errno);
        }
        None
    }

    /// TCP: the instant at which the connection attempt made by wire packet `wire` resolves
    /// (SYN-ACK or RST reaches the host), if it ever does.
    pub fn tcp_outcome_of_wire(&self, wire: WireId) -> Option<(u64, RespKind)> {
        self.socks.iter().filter_map(|s| s.tcp.as_ref()).find(|c| c.wire == wire).and_then(|c| c.outcome)
    }

    pub fn calls(&self) -> usize {
        self.call_idx
    }

    /// Take a token from hop `idx`'s bucket at time `t`.
    fn rate_ok(&mut self, idx: usize, burst: u32, refill_ns: u64, t: u64) -> bool {
        let e = self.buckets.entry(idx).or_insert((burst, t));
        if refill_ns > 0 {
            let add = (t.saturating_sub(e.1)) / refill_ns;
            if add > 0 {
                e.0 = (u64::from(e.0) + add).min(u64::from(burst)) as u32;
                e.1 += add * refill_ns;
            }
        }
        if e.0 > 0 {
            e.0 -= 1;
            true
        } else {
            false
        }
    }

    /// Put a datagram on the wire and compute the network's reaction.
    /// Returns packets to deliver to ICMP receive queues and an optional TCP outcome.
    fn emit(&mut self, t: u64, tracer: usize, sock: SockId, bytes: Vec<u8>, sent_buf: Option<Vec<u8>>, v6: bool) -> (WireId, Vec<PktId>, Option<(u64, RespKind)>) {
        let id = self.wires.len();
        let (proto, ttl, tos, dst, udp_csum) = if v6 {
            let ip = Ip6::parse(&bytes).expect("world built an unparsable ipv6 datagram");
            let uc = if ip.next == PROTO_UDP {
                Udp::parse(&ip.payload).ok().map(|u| u.csum)
            } else {
                None
            };
            (ip.next, ip.hop_limit, ip.tclass, IpAddr::V6(ip.dst), uc)
        } else {
            let ip = Ip4::parse(&bytes).expect("world built an unparsable ipv4 datagram");
            let uc = if ip.proto == PROTO_UDP {
                Udp::parse(&ip.payload).ok().map(|u| u.csum)
            } else {
                None
            };
            (ip.proto, ip.ttl, ip.tos, IpAddr::V4(ip.dst), uc)
        };
        let wp = WirePacket {
            id,
            t,
            tracer,
            sock,
            bytes,
            sent_buf,
            v6,
            proto,
            ttl,
            tos,
            dst,
            udp_csum,
        };
        self.wires.push(wp.clone());
        let (pkts, tcp) = self.route(&wp);
        // scripted injections
        let mut scripts = std::mem::take(&mut self.inject_on_send);
        let mut extra = Vec::new();
        for s in &mut scripts {
            let mut r = self.rng.fork(id as u64);
            for inj in s(&wp, &mut r) {
                let pid = self.pkts.len();
                self.pkts.push(InPacket {
                    id: pid,
                    arrive: t + inj.delay_ns,
                    v6: inj.v6,
                    bytes: inj.bytes,
                    src: inj.src,
                    class: inj.class,
                    wire: Some(id),
                    kind: None,
                    quoted_udp_csum: None,
                    ext: Vec::new(),
                    quoted_tos: None,
                });
                extra.push(pid);
            }
        }
        self.inject_on_send = scripts;
        let mut all = pkts;
        all.extend(extra);
        (id, all, tcp)
    }

    /// The network: what comes back for a wire packet.
    fn route(&mut self, wp: &WirePacket) -> (Vec<PktId>, Option<(u64, RespKind)>) {
        let rel0 = wp.t.saturating_sub(crate::clock::EPOCH_NS);
        let topo = self.cfg.reroutes.iter().rev().find(|(from, _)| rel0 >= *from).map_or_else(|| self.cfg.topo.clone(), |(_, t)| t.clone());
        let mut out = Vec::new();
        if (wp.dst != topo.target_addr() && !self.cfg.alt_targets.contains(&wp.dst)) || wp.ttl == 0 {
            return (out, None);
        }
        let rel = wp.t.saturating_sub(crate::clock::EPOCH_NS);
        if self.cfg.blackouts.iter().any(|(a, b)| rel >= *a && rel < *b) {
            return (out, None);
        }
        // flow tuple for ECMP
        let (sport, dport, icmp_id) = if wp.v6 {
            let ip = Ip6::parse(&wp.bytes).unwrap();
            match ip.next {
                PROTO_UDP | PROTO_TCP => {
                    let p = wire::tcp_ports(&ip.payload).unwrap_or((0, 0));
                    (p.0, p.1, 0)
                }
                _ => (0, 0, if ip.payload.len() >= 6 { u16::from_be_bytes([ip.payload[4], ip.payload[5]]) } else { 0 }),
            }
        } else {
            let ip = Ip4::parse(&wp.bytes).unwrap();
            match ip.proto {
                PROTO_UDP | PROTO_TCP => {
                    let p = wire::tcp_ports(&ip.payload).unwrap_or((0, 0));
                    (p.0, p.1, 0)
                }
                _ => (0, 0, if ip.payload.len() >= 6 { u16::from_be_bytes([ip.payload[4], ip.payload[5]]) } else { 0 }),
            }
        };
        let fh = |salt: u64| flow_hash(&[u64::from(wp.proto), u64::from(sport), u64::from(dport), u64::from(icmp_id), addr_u64(wp.dst), salt]);
        let extra = if self.cfg.long_branch_extra > 0 && fh(0xEC) & 1 == 1 { self.cfg.long_branch_extra } else { 0 };
        let dist = topo.distance().saturating_add(extra);
        let at = wp.ttl.min(dist);
        let is_target = wp.ttl >= dist;
        let hop_idx = usize::from(at) - 1;
        // routers of the longer branch beyond the common path
        let extra_hop = {
            let k = hop_idx.saturating_sub(topo.hops.len()) as u8;
            let addr: IpAddr = if wp.v6 { IpAddr::V6(format!("fd00:eb::{:x}", u16::from(k) + 1).parse().unwrap()) } else { IpAddr::V4(Ipv4Addr::new(10, 251, k, 1)) };
            let mut h = HopSpec::simple(addr, topo.target.delay_ns.0);
            h.quote = Quote::Full;
            h
        };
        let spec: &HopSpec = if is_target {
            &topo.target
        } else if hop_idx < topo.hops.len() {
            &topo.hops[hop_idx]
        } else {
            &extra_hop
        };

        // in-transit modifications by the hops the datagram passes through (and by the quoting hop)
        let mut transit = wp.bytes.clone();
        let mut quoted_udp_csum = wp.udp_csum;
        let mut tos = wp.tos;
        let mut quoted_src: Option<Ipv4Addr> = None;
        for h in topo.hops.iter().take(usize::from(at).min(topo.hops.len())) {
            if let Some(t) = h.tos_rewrite {
                tos = t;
            }
            if let (Some(nat), false) = (h.nat, wp.v6) {
                // NAT: source address (and optionally port) rewritten, transport checksum updated
                // incrementally (RFC 1624).  The return path translates addresses and ports in the
                // quoted datagram back, but not the transport checksum.
                if wp.proto == PROTO_UDP {
                    if let Ok(ip) = Ip4::parse(&transit) {
                        if let (Some(c), Ok(udp)) = (quoted_udp_csum, Udp::parse(&ip.payload)) {
                            let old = ip.src.octets();
                            let new = nat.new_src.octets();
                            let mut c2 = wire::csum_update(c, u16::from_be_bytes([old[0], old[1]]), u16::from_be_bytes([new[0], new[1]]));
                            c2 = wire::csum_update(c2, u16::from_be_bytes([old[2], old[3]]), u16::from_be_bytes([new[2], new[3]]));
                            if let Some(p) = nat.new_port {
                                c2 = wire::csum_update(c2, udp.sport, p);
                            }
                            quoted_udp_csum = Some(c2);
                            if nat.quote_keeps_new_src {
                                quoted_src = Some(nat.new_src);
                            }
                        }
                    }
                }
            }
        }
        // apply tos + checksum changes to the transit copy
        if wp.v6 {
            if let Ok(mut ip) = Ip6::parse(&transit) {
                ip.tclass = tos;
                ip.hop_limit = spec.q_ttl;
                if ip.next == PROTO_UDP && ip.payload.len() >= 8 {
                    if let Some(c) = quoted_udp_csum {
                        ip.payload[6..8].copy_from_slice(&c.to_be_bytes());
                    }
                }
                transit = ip.bytes();
            }
        } else if let Ok(mut ip) = Ip4::parse(&transit) {
            ip.tos = tos;
            ip.ttl = spec.q_ttl;
            if let Some(s) = quoted_src {
                ip.src = s;
            }
            if ip.proto == PROTO_UDP && ip.payload.len() >= 8 {
                if let Some(c) = quoted_udp_csum {
                    ip.payload[6..8].copy_from_slice(&c.to_be_bytes());
                }
            }
            if spec.q_fix_csum {
                ip.fix_hdr_csum();
            }
            transit = ip.bytes();
        }

        // behaviour
        let respond = match spec.behaviour {
            Behaviour::Respond => true,
            Behaviour::Silent => false,
            Behaviour::RateLimit { burst, refill_ns } => self.rate_ok(hop_idx, burst, refill_ns, wp.t),
        };
        let lost = spec.loss_pct > 0 && self.rng.chance(u64::from(spec.loss_pct), 100);
        let delay = self.uniform(spec.delay_ns);
        let responder = if is_target { wp.dst } else { spec.addrs[(fh(hop_idx as u64) % spec.addrs.len() as u64) as usize] };
        if !respond {
            return (out, None);
        }

        // TCP handshake answered by the target
        if is_target && wp.proto == PROTO_TCP {
            return match topo.tcp {
                TcpMode::Silent => (out, None),
                _ if lost => (out, None),
                TcpMode::SynAck => (out, Some((wp.t + delay, RespKind::TcpSynAck))),
                TcpMode::Rst => (out, Some((wp.t + delay, RespKind::TcpRst))),
                TcpMode::Fails(errno) => (out, Some((wp.t + delay, RespKind::TcpError(errno)))),
            };
        }
        if lost {
            return (out, None);
        }

        // build the genuine ICMP response
        let (kind, msg) = self.build_response(wp, spec, &transit, is_target, responder);
        let Some(msg) = msg else {
            return (out, None);
        };
        let bytes = self.wrap(wp.v6, responder, &msg, spec.outer_opts);
        let ext = if matches!(spec.rfc4884, Rfc4884::Compliant | Rfc4884::Legacy) && !matches!(kind, RespKind::EchoReply) {
            spec.ext.clone()
        } else {
            Vec::new()
        };
        let mut push = |me: &mut Self, arrive: u64, class: PktClass, bytes: Vec<u8>, kind: Option<RespKind>| {
            let pid = me.pkts.len();
            me.pkts.push(InPacket {
                id: pid,
                arrive,
                v6: wp.v6,
                bytes,
                src: responder,
                class,
                wire: Some(wp.id),
                kind,
                quoted_udp_csum,
                ext: ext.clone(),
                quoted_tos: Some(tos),
            });
            out.push(pid);
        };
        push(self, wp.t + delay, PktClass::Genuine { copy: 0 }, bytes.clone(), Some(kind));
        if spec.dup_pct > 0 && self.rng.chance(u64::from(spec.dup_pct), 100) {
            let d = self.uniform(spec.dup_delay_ns);
            push(self, wp.t + delay + d, PktClass::Genuine { copy: 1 }, bytes.clone(), Some(kind));
        }
        let adv = self.cfg.adversary.clone();
        if adv.late_pct > 0 && self.rng.chance(u64::from(adv.late_pct), 100) {
            let d = self.uniform(adv.late_delay_ns);
            push(self, wp.t + delay + d, PktClass::Late, bytes.clone(), Some(kind));
        }
        for (f, pct) in &adv.forgeries {
            if *pct > 0 && self.rng.chance(u64::from(*pct), 100) {
                if let Some(fb) = self.forge(*f, wp, spec, &transit, is_target, responder) {
                    let off = if adv.offset_ns.1 > adv.offset_ns.0 {
                        adv.offset_ns.0 + self.rng.below((adv.offset_ns.1 - adv.offset_ns.0) as u64) as i64
                    } else {
                        adv.offset_ns.0
                    };
                    let arrive = ((wp.t + delay) as i64 + off).max(wp.t as i64 + 1) as u64;
                    push(self, arrive, PktClass::Forged(*f), fb, None);
                }
            }
        }
        (out, None)
    }

    /// The part of the in-transit datagram that the responder quotes.
    ///
    /// RFC 1812 4.3.2.3: an ICMPv4 error should not exceed 576 octets; RFC 4443 2.4(c): an ICMPv6
    /// error must not exceed the 1280 octet minimum MTU.  RFC 4884 messages additionally need the
    /// length of the padded original datagram to fit the 8 bit length field.
    fn quote_of(&self, spec: &HopSpec, transit: &[u8], v6: bool, ext_len: usize) -> Vec<u8> {
        let hl = if v6 { 40 } else { usize::from(transit[0] & 0x0f) * 4 };
        let n = match spec.quote {
            Quote::Min8 => hl + 8,
            Quote::Plus(n) => hl + n,
            Quote::Full => usize::MAX,
        };
        let structured = !matches!(spec.rfc4884, Rfc4884::None);
        let cap = if v6 {
            (1232 - ext_len) & !7
        } else if structured || spec.quote != Quote::Full {
            (548 - ext_len) & !3
        } else {
            // classic routers that quote the entire datagram
            65_535 - 28
        };
        transit[..transit.len().min(n).min(cap)].to_vec()
    }

    fn build_response(&mut self, wp: &WirePacket, spec: &HopSpec, transit: &[u8], is_target: bool, responder: IpAddr) -> (RespKind, Option<Vec<u8>>) {
        let host6 = self.cfg.host_v6;
        let ext_bytes = if spec.ext.is_empty() && !matches!(spec.rfc4884, Rfc4884::Compliant | Rfc4884::Legacy) {
            None
        } else {
            Some(wire::build_extension(&spec.ext))
        };
        let word = if wp.v6 { 8 } else { 4 };
        let err = |typ4: u8, code4: u8, typ6: u8, code6: u8| -> Vec<u8> {
            let q = self.quote_of(spec, transit, wp.v6, ext_bytes.as_ref().map_or(0, Vec::len));
            let body = wire::build_err_body(&q, ext_bytes.as_deref(), spec.rfc4884, word);
            match responder {
                IpAddr::V4(_) => wire::build_icmp4_error(typ4, code4, &body),
                IpAddr::V6(r) => wire::build_icmp6_error(typ6, code6, &body, r, host6),
            }
        };
        if !is_target {
            if let Some(code4) = spec.router_unreach {
                let code6 = match code4 {
                    0 => 0,
                    1 => 3,
                    // port unreachable from a device on the path (a firewall answering for the target)
                    3 => 4,
                    _ => 1,
                };
                let code = if wp.v6 { code6 } else { code4 };
                return (RespKind::DestUnreach(code), Some(err(3, code4, 1, code6)));
            }
            return (RespKind::TimeExceeded(0), Some(err(11, 0, 3, 0)));
        }
        match wp.proto {
            PROTO_ICMP | PROTO_ICMP6 => {
                // echo reply carries the request's identifier, sequence and payload
                let req: Vec<u8> = if wp.v6 { wp.bytes[40..].to_vec() } else { Ip4::parse(&wp.bytes).unwrap().payload };
                if req.len() < 8 {
                    return (RespKind::EchoReply, None);
                }
                let v6 = match responder {
                    IpAddr::V6(r) => Some((r, host6)),
                    IpAddr::V4(_) => None,
                };
                (RespKind::EchoReply, Some(wire::build_echo_reply(&req, v6)))
            }
            PROTO_UDP => {
                let code6 = if spec.du_code == 3 { 4 } else { spec.du_code };
                let code = if wp.v6 { code6 } else { spec.du_code };
                (RespKind::DestUnreach(code), Some(err(3, spec.du_code, 1, code6)))
            }
            _ => (RespKind::TimeExceeded(0), None),
        }
    }

    fn wrap(&mut self, v6: bool, responder: IpAddr, msg: &[u8], outer_opts: bool) -> Vec<u8> {
        if v6 {
            msg.to_vec()
        } else {
            let IpAddr::V4(src) = responder else { panic!("v4 world with v6 responder") };
            let opts: &[u8] = if outer_opts { &[1, 1, 1, 0] } else { &[] };
            let id = self.rng.next_u32() as u16;
            wire::wrap_ip4(src, self.cfg.host_v4, PROTO_ICMP, 250, 0, id, opts, msg)
        }
    }

    /// Build a near-miss forgery from the genuine transit datagram.
    fn forge(&mut self, f: Forgery, wp: &WirePacket, spec: &HopSpec, transit: &[u8], is_target: bool, responder: IpAddr) -> Option<Vec<u8>> {
        let mut t = transit.to_vec();
        let hl = if wp.v6 { 40 } else { usize::from(t[0] & 0x0f) * 4 };
        let mut typ_override: Option<(u8, u8)> = None;
        match f {
            Forgery::OtherDest => {
                if wp.proto == PROTO_ICMP || wp.proto == PROTO_ICMP6 {
                    // ICMP probes are not validated by destination; this would be a false alarm.
                    return None;
                }
                if wp.v6 {
                    t[39] ^= 0x5a;
                } else {
                    t[19] ^= 0x5a;
                }
            }
            Forgery::OtherTracer => match wp.proto {
                PROTO_ICMP | PROTO_ICMP6 => {
                    // other identifier (never zero, never ours)
                    if t.len() < hl + 6 {
                        return None;
                    }
                    let id = u16::from_be_bytes([t[hl + 4], t[hl + 5]]);
                    let mut other = id.wrapping_add(1 + (self.rng.below(3) as u16));
                    if other == 0 {
                        other = 7;
                    }
                    t[hl + 4..hl + 6].copy_from_slice(&other.to_be_bytes());
                }
                _ => return None,
            },
            Forgery::OtherProto => {
                let other = if wp.proto == PROTO_UDP { PROTO_TCP } else { PROTO_UDP };
                if wp.v6 {
                    t[6] = other;
                } else {
                    t[9] = other;
                }
            }
            Forgery::OtherIcmpType => {
                typ_override = Some(if wp.v6 { (2, 0) } else { (5, 1) });
            }
            Forgery::OtherTeCode => {
                if is_target {
                    return None;
                }
                typ_override = Some(if wp.v6 { (3, 1) } else { (11, 1) });
            }
            Forgery::NoMagic | Forgery::NeverSentInWindow | Forgery::NeverSentOutside => {
                // these need knowledge of the tracer's configuration; built by scenario scripts
                return None;
            }
        }
        if !wp.v6 && spec.q_fix_csum {
            if let Ok(mut ip) = Ip4::parse(&t) {
                ip.fix_hdr_csum();
                t = ip.bytes();
            }
        }
        let host6 = self.cfg.host_v6;
        let q = self.quote_of(spec, &t, wp.v6, 0);
        let word = if wp.v6 { 8 } else { 4 };
        let body = wire::build_err_body(&q, None, Rfc4884::None, word);
        let (t4, c4, t6, c6) = if is_target { (3, 3, 1, 4) } else { (11, 0, 3, 0) };
        let msg = match (responder, typ_override) {
            (IpAddr::V4(_), None) => wire::build_icmp4_error(t4, c4, &body),
            (IpAddr::V4(_), Some((t, c))) => wire::build_icmp4_error(t, c, &body),
            (IpAddr::V6(r), None) => wire::build_icmp6_error(t6, c6, &body, r, host6),
            (IpAddr::V6(r), Some((t, c))) => wire::build_icmp6_error(t, c, &body, r, host6),
        };
        Some(self.wrap(wp.v6, responder, &msg, false))
    }

    /// Deliver packets to every matching ICMP receive socket; returns (tracer, arrive) to nudge.
    fn deliver(&mut self, pkts: &[PktId]) -> Vec<(usize, u64)> {
        let mut nudges = Vec::new();
        for &p in pkts {
            let (v6, arrive) = (self.pkts[p].v6, self.pkts[p].arrive);
            for s in &mut self.socks {
                let is_recv = match s.kind {
                    VerifSocketKind::RecvV4 { .. } => !v6,
                    VerifSocketKind::RecvV6 { .. } => v6,
                    _ => false,
                };
                if is_recv && !s.closed {
                    s.queue.insert((arrive, p), ());
                    nudges.push((s.tracer, arrive));
                }
            }
        }
        nudges
    }

    /// Inject an arbitrary packet into all receive queues of the given family.
    pub fn inject(&mut self, arrive: u64, v6: bool, bytes: Vec<u8>, src: IpAddr, class: PktClass) -> PktId {
        let pid = self.pkts.len();
        self.pkts.push(InPacket {
            id: pid,
            arrive,
            v6,
            bytes,
            src,
            class,
            wire: None,
            kind: None,
            quoted_udp_csum: None,
            ext: Vec::new(),
            quoted_tos: None,
        });
        let _ = self.deliver(&[pid]);
        pid
    }
}

// ------------------------------------------------------------------------------------------------
// the socket

pub struct SimSocket {
    world: Arc<World>,
    id: SockId,
    tracer: usize,
    kind: VerifSocketKind,
}

impl SimSocket {
    fn create(world: &Arc<World>, tracer: usize, kind: VerifSocketKind) -> IoResult<Box<dyn VerifSocket>> {
        let t = world.clock.tick();
        let mut w = world.inner.lock().unwrap();
        let id = w.socks.len();
        if let Some(errno) = w.fault(Op::NewSocket) {
            w.log(t, tracer, usize::MAX, Op::NewSocket, Ev::NewSocket { kind }, Some(errno));
            return Err(IoError::Other(os_err(errno), IoOperation::NewSocket));
        }
        w.socks.push(SockState {
            kind,
            tracer,
            bound: None,
            ttl: 64,
            tos: 0,
            hops: 64,
            queue: BTreeMap::new(),
            tcp: None,
            closed: false,
        });
        w.log(t, tracer, id, Op::NewSocket, Ev::NewSocket { kind }, None);
        Ok(Box::new(Self {
            world: world.clone(),
            id,
            tracer,
            kind,
        }))
    }

    fn host_addr(w: &WorldInner, v6: bool) -> IpAddr {
        if v6 {
            IpAddr::V6(w.cfg.host_v6)
        } else {
            IpAddr::V4(w.cfg.host_v4)
        }
    }

    fn recv_common(&mut self, buf: &mut [u8], op: Op) -> Result<(usize, Option<SocketAddr>), io::Error> {
        let t = self.world.clock.tick();
        let mut w = self.world.inner.lock().unwrap();
        let mk = |pkt: Option<PktId>, n: usize| {
            if op == Op::Read {
                Ev::Read { pkt, n }
            } else {
                Ev::RecvFrom { pkt, n }
            }
        };
        if let Some(errno) = w.fault(op) {
            w.log(t, self.tracer, self.id, op, mk(None, 0), Some(errno));
            return Err(os_err(errno));
        }
        let head = w.socks[self.id].queue.keys().next().copied();
        match head {
            Some((arrive, pid)) if arrive <= t => {
                w.socks[self.id].queue.remove(&(arrive, pid));
                let p = &w.pkts[pid];
                let n = p.bytes.len().min(buf.len());
                buf[..n].copy_from_slice(&p.bytes[..n]);
                let src = p.src;
                w.log(t, self.tracer, self.id, op, mk(Some(pid), n), None);
                Ok((n, Some(SocketAddr::new(src, 0))))
            }
            _ => {
                w.log(t, self.tracer, self.id, op, mk(None, 0), Some(libc::EAGAIN));
                Err(os_err(libc::EAGAIN))
            }
        }
    }
}

impl Drop for SimSocket {
    fn drop(&mut self) {
        if let Ok(mut w) = self.world.inner.lock() {
            if let Some(s) = w.socks.get_mut(self.id) {
                s.closed = true;
                s.queue.clear();
            }
        }
    }
}

macro_rules! simple_op {
    ($self:ident, $op:expr, $ev:expr, $ioop:expr, |$w:ident| $body:block) => {{
        let t = $self.world.clock.tick();
        let mut $w = $self.world.inner.lock().unwrap();
        if let Some(errno) = $w.fault($op) {
            $w.log(t, $self.tracer, $self.id, $op, $ev, Some(errno));
            return Err(IoError::Other(os_err(errno), $ioop));
        }
        $body
        $w.log(t, $self.tracer, $self.id, $op, $ev, None);
        Ok(())
    }};
}

impl VerifSocket for SimSocket {
    fn bind(&mut self, address: SocketAddr) -> IoResult<()> {
        let t = self.world.clock.tick();
        let mut w = self.world.inner.lock().unwrap();
        let mut errno = w.fault(Op::Bind);
        let stream = matches!(self.kind, VerifSocketKind::StreamV4 | VerifSocketKind::StreamV6);
        if errno.is_none() && address.port() != 0 && w.cfg.faults.ports_in_use.contains(&address.port()) {
            errno = Some(libc::EADDRINUSE);
        }
        if errno.is_none() && stream && w.cfg.faults.bind_in_use_pct > 0 {
            let pct = u64::from(w.cfg.faults.bind_in_use_pct);
            if w.rng.chance(pct, 100) {
                errno = Some(libc::EADDRINUSE);
            }
        }
        if errno.is_none() {
            let host = Self::host_addr(&w, address.is_ipv6());
            if address.ip() != host && !address.ip().is_unspecified() {
                errno = Some(libc::EADDRNOTAVAIL);
            }
        }
        if let Some(errno) = errno {
            w.log(t, self.tracer, self.id, Op::Bind, Ev::Bind { addr: address }, Some(errno));
            return Err(IoError::Bind(os_err(errno), address));
        }
        w.socks[self.id].bound = Some(address);
        w.log(t, self.tracer, self.id, Op::Bind, Ev::Bind { addr: address }, None);
        Ok(())
    }

    fn set_tos(&mut self, tos: u32) -> IoResult<()> {
        simple_op!(self, Op::SetTos, Ev::SetTos { tos }, IoOperation::SetTos, |w| {
            w.socks[self.id].tos = tos;
        })
    }

    fn set_ttl(&mut self, ttl: u32) -> IoResult<()> {
        simple_op!(self, Op::SetTtl, Ev::SetTtl { ttl }, IoOperation::SetTtl, |w| {
            w.socks[self.id].ttl = ttl;
        })
    }

    fn set_reuse_port(&mut self, _reuse: bool) -> IoResult<()> {
        Ok(())
    }

    fn set_header_included(&mut self, _included: bool) -> IoResult<()> {
        Ok(())
    }

    fn set_unicast_hops_v6(&mut self, hops: u8) -> IoResult<()> {
        simple_op!(self, Op::SetHops, Ev::SetHops { hops }, IoOperation::SetUnicastHopsV6, |w| {
            w.socks[self.id].hops = hops;
        })
    }

    fn connect(&mut self, address: SocketAddr) -> IoResult<()> {
        let t = self.world.clock.tick();
        let mut w = self.world.inner.lock().unwrap();
        if let Some(errno) = w.fault(Op::Connect) {
            w.log(t, self.tracer, self.id, Op::Connect, Ev::Connect { addr: address, wire: None }, Some(errno));
            return Err(IoError::Connect(os_err(errno), address));
        }
        match self.kind {
            VerifSocketKind::StreamV4 | VerifSocketKind::StreamV6 => {
                let v6 = address.is_ipv6();
                let s = w.socks[self.id].clone();
                let src = Self::host_addr(&w, v6);
                let sport = s.bound.map_or(40_000, |b| b.port());
                w.isn = w.isn.wrapping_add(64_001);
                let isn = w.isn;
                let seg = wire::build_tcp_syn(src, address.ip(), sport, address.port(), isn);
                let bytes = match (src, address.ip()) {
                    (IpAddr::V4(s4), IpAddr::V4(d4)) => {
                        let id = w.rng.next_u32() as u16;
                        let mut ip = Ip4::parse(&wire::wrap_ip4(s4, d4, PROTO_TCP, s.ttl as u8, s.tos as u8, id, &[], &seg)).unwrap();
                        ip.flags_frag = 0x4000;
                        ip.fix_hdr_csum();
                        ip.bytes()
                    }
                    (IpAddr::V6(s6), IpAddr::V6(d6)) => Ip6 {
                        tclass: 0,
                        flow: 0,
                        payload_len: seg.len() as u16,
                        next: PROTO_TCP,
                        hop_limit: s.hops,
                        src: s6,
                        dst: d6,
                        payload: seg,
                    }
                    .bytes(),
                    _ => {
                        w.log(t, self.tracer, self.id, Op::Connect, Ev::Connect { addr: address, wire: None }, Some(libc::EAFNOSUPPORT));
                        return Err(IoError::Connect(os_err(libc::EAFNOSUPPORT), address));
                    }
                };
                let (wid, pkts, outcome) = w.emit(t, self.tracer, self.id, bytes, None, v6);
                w.socks[self.id].tcp = Some(TcpConn {
                    wire: wid,
                    peer: address,
                    outcome,
                    error_taken: false,
                });
                let nudges = w.deliver(&pkts);
                w.log(t, self.tracer, self.id, Op::Connect, Ev::Connect { addr: address, wire: Some(wid) }, Some(libc::EINPROGRESS));
                drop(w);
                for (tr, a) in nudges {
                    self.world.nudge(tr, a);
                }
                Err(IoError::Connect(os_err(libc::EINPROGRESS), address))
            }
            _ => {
                // datagram socket used for local address discovery: no packet is sent
                let v6 = address.is_ipv6();
                let host = Self::host_addr(&w, v6);
                w.socks[self.id].bound = Some(SocketAddr::new(host, 50_000));
                w.log(t, self.tracer, self.id, Op::Connect, Ev::Connect { addr: address, wire: None }, None);
                Ok(())
            }
        }
    }

    fn send_to(&mut self, buf: &[u8], addr: SocketAddr) -> IoResult<()> {
        let t = self.world.clock.tick();
        let mut w = self.world.inner.lock().unwrap();
        let fail = |w: &mut WorldInner, errno: i32| {
            w.log(t, self.tracer, self.id, Op::SendTo, Ev::SendTo { addr, len: buf.len(), wire: None }, Some(errno));
            Err(IoError::SendTo(os_err(errno), addr))
        };
        if let Some(errno) = w.fault(Op::SendTo) {
            return fail(&mut w, errno);
        }
        let s = w.socks[self.id].clone();
        let (bytes, v6): (Vec<u8>, bool) = match self.kind {
            VerifSocketKind::IcmpSendV4 { .. } | VerifSocketKind::UdpSendV4 { raw: true } => {
                // IP_HDRINCL: the caller supplies the IPv4 header.  The kernel fills in the
                // header checksum and the total length and rejects inconsistent buffers.
                let Ok(mut ip) = Ip4::parse(buf) else {
                    return fail(&mut w, libc::EINVAL);
                };
                if usize::from(ip.total_len) > buf.len() {
                    return fail(&mut w, libc::EINVAL);
                }
                if IpAddr::V4(ip.dst) != addr.ip() {
                    // raw sockets route by the sockaddr; keep the header as given
                }
                ip.total_len = buf.len() as u16;
                ip.fix_hdr_csum();
                (ip.bytes(), false)
            }
            VerifSocketKind::IcmpSendV6 { .. } | VerifSocketKind::UdpSendV6 { raw: true } => {
                let IpAddr::V6(d6) = addr.ip() else {
                    return fail(&mut w, libc::EAFNOSUPPORT);
                };
                if addr.port() != 0 && matches!(self.kind, VerifSocketKind::UdpSendV6 { raw: true }) {
                    // raw IPv6 sockets reject a non-zero port in the sockaddr
                    return fail(&mut w, libc::EINVAL);
                }
                let next = if matches!(self.kind, VerifSocketKind::IcmpSendV6 { .. }) { PROTO_ICMP6 } else { PROTO_UDP };
                (
                    Ip6 {
                        tclass: 0,
                        flow: 0,
                        payload_len: buf.len() as u16,
                        next,
                        hop_limit: s.hops,
                        src: w.cfg.host_v6,
                        dst: d6,
                        payload: buf.to_vec(),
                    }
                    .bytes(),
                    true,
                )
            }
            VerifSocketKind::UdpSendV4 { raw: false } => {
                let IpAddr::V4(d4) = addr.ip() else {
                    return fail(&mut w, libc::EAFNOSUPPORT);
                };
                let sport = s.bound.map_or(40_001, |b| b.port());
                let src = w.cfg.host_v4;
                let udp = Udp::build(IpAddr::V4(src), addr.ip(), sport, addr.port(), buf).bytes();
                let id = w.rng.next_u32() as u16;
                let mut ip = Ip4::parse(&wire::wrap_ip4(src, d4, PROTO_UDP, s.ttl as u8, s.tos as u8, id, &[], &udp)).unwrap();
                ip.flags_frag = 0x4000;
                ip.fix_hdr_csum();
                (ip.bytes(), false)
            }
            VerifSocketKind::UdpSendV6 { raw: false } => {
                let IpAddr::V6(d6) = addr.ip() else {
                    return fail(&mut w, libc::EAFNOSUPPORT);
                };
                let sport = s.bound.map_or(40_001, |b| b.port());
                let src = w.cfg.host_v6;
                let udp = Udp::build(IpAddr::V6(src), addr.ip(), sport, addr.port(), buf).bytes();
                (
                    Ip6 {
                        tclass: 0,
                        flow: 0,
                        payload_len: udp.len() as u16,
                        next: PROTO_UDP,
                        hop_limit: s.hops,
                        src,
                        dst: d6,
                        payload: udp,
                    }
                    .bytes(),
                    true,
                )
            }
            _ => return fail(&mut w, libc::EOPNOTSUPP),
        };
        if let Some((ttl, errno)) = w.cfg.faults.send_fails_for_ttl {
            let dgram_ttl = if v6 { bytes.get(7).copied() } else { bytes.get(8).copied() };
            if dgram_ttl == Some(ttl) {
                return fail(&mut w, errno);
            }
        }
        let (wid, pkts, _) = w.emit(t, self.tracer, self.id, bytes, Some(buf.to_vec()), v6);
        let nudges = w.deliver(&pkts);
        w.log(t, self.tracer, self.id, Op::SendTo, Ev::SendTo { addr, len: buf.len(), wire: Some(wid) }, None);
        drop(w);
        for (tr, a) in nudges {
            self.world.nudge(tr, a);
        }
        Ok(())
    }

    fn is_readable(&mut self, timeout: Duration) -> IoResult<bool> {
        let t = self.world.clock.tick();
        let timeout_ns = timeout.as_nanos() as u64;
        let head = {
            let mut w = self.world.inner.lock().unwrap();
            if let Some(errno) = w.fault(Op::IsReadable) {
                w.log(t, self.tracer, self.id, Op::IsReadable, Ev::IsReadable { timeout_ns, ready: false, t_ret: t }, Some(errno));
                return Err(IoError::Other(os_err(errno), IoOperation::Select));
            }
            w.socks[self.id].queue.keys().next().map(|k| k.0)
        };
        // select() has millisecond granularity in trippy's implementation
        let timeout_ns = (timeout_ns / 1_000_000) * 1_000_000;
        let deadline = t + timeout_ns;
        let ready_now = head.is_some_and(|a| a <= t);
        if !ready_now {
            let wake = head.map_or(deadline, |a| a.min(deadline));
            self.world.block_until(self.tracer, wake);
            // other tracers may have run; their sends may have queued earlier packets for us
        }
        let t_ret = self.world.clock.tick();
        let mut w = self.world.inner.lock().unwrap();
        let ready = w.socks[self.id].queue.keys().next().is_some_and(|k| k.0 <= t_ret);
        w.log(t, self.tracer, self.id, Op::IsReadable, Ev::IsReadable { timeout_ns, ready, t_ret }, None);
        Ok(ready)
    }

    fn is_writable(&mut self) -> IoResult<bool> {
        let t = self.world.clock.tick();
        let mut w = self.world.inner.lock().unwrap();
        if let Some(errno) = w.fault(Op::IsWritable) {
            w.log(t, self.tracer, self.id, Op::IsWritable, Ev::IsWritable { ready: false }, Some(errno));
            return Err(IoError::Other(os_err(errno), IoOperation::Select));
        }
        let ready = w.socks[self.id]
            .tcp
            .as_ref()
            .and_then(|c| c.outcome)
            .is_some_and(|(at, _)| at <= t);
        w.log(t, self.tracer, self.id, Op::IsWritable, Ev::IsWritable { ready }, None);
        Ok(ready)
    }

    fn recv_from(&mut self, buf: &mut [u8]) -> IoResult<(usize, Option<SocketAddr>)> {
        self.recv_common(buf, Op::RecvFrom)
            .map_err(|e| IoError::Other(e, IoOperation::RecvFrom))
    }

    fn read(&mut self, buf: &mut [u8]) -> IoResult<usize> {
        self.recv_common(buf, Op::Read)
            .map(|(n, _)| n)
            .map_err(|e| IoError::Other(e, IoOperation::Read))
    }

    fn shutdown(&mut self) -> IoResult<()> {
        simple_op!(self, Op::Shutdown, Ev::Shutdown, IoOperation::Shutdown, |w| {})
    }

    fn peer_addr(&mut self) -> IoResult<Option<SocketAddr>> {
        let t = self.world.clock.tick();
        let mut w = self.world.inner.lock().unwrap();
        if let Some(errno) = w.fault(Op::PeerAddr) {
            w.log(t, self.tracer, self.id, Op::PeerAddr, Ev::PeerAddr, Some(errno));
            return Err(IoError::Other(os_err(errno), IoOperation::PeerAddr));
        }
        let peer = w.socks[self.id].tcp.as_ref().map(|c| c.peer);
        w.log(t, self.tracer, self.id, Op::PeerAddr, Ev::PeerAddr, None);
        Ok(peer)
    }

    fn take_error(&mut self) -> IoResult<Option<SocketError>> {
        let t = self.world.clock.tick();
        let mut w = self.world.inner.lock().unwrap();
        if let Some(errno) = w.fault(Op::TakeError) {
            w.log(t, self.tracer, self.id, Op::TakeError, Ev::TakeError { outcome: None, wire: None }, Some(errno));
            return Err(IoError::Other(os_err(errno), IoOperation::TakeError));
        }
        let (outcome, wire) = match w.socks[self.id].tcp.as_mut() {
            Some(c) => {
                let o = c.outcome.filter(|(at, _)| *at <= t).map(|(_, k)| k);
                let first = !c.error_taken;
                c.error_taken = true;
                (if first { o } else { o.filter(|k| *k == RespKind::TcpSynAck) }, Some(c.wire))
            }
            None => (None, None),
        };
        w.log(t, self.tracer, self.id, Op::TakeError, Ev::TakeError { outcome, wire }, None);
        Ok(match outcome {
            Some(RespKind::TcpRst) => Some(SocketError::ConnectionRefused),
            Some(RespKind::TcpError(errno)) => Some(SocketError::Other(os_err(errno))),
            _ => None,
        })
    }

    fn icmp_error_info(&mut self) -> IoResult<IpAddr> {
        Ok(IpAddr::V4(Ipv4Addr::UNSPECIFIED))
    }

    fn local_addr(&self) -> IoResult<Option<SocketAddr>> {
        let w = self.world.inner.lock().unwrap();
        Ok(w.socks[self.id].bound)
    }
}
