//! Scenario generation: configuration cells, random topologies, world configurations.
use crate::prng::Prng;
use crate::sim::TraceCfg;
use crate::wire::{mpls_object, ExtObject, MplsEntry, Rfc4884};
use crate::world::*;
use std::net::{IpAddr, Ipv4Addr, Ipv6Addr};
use std::time::Duration;
use trippy_core::{IcmpExtensionParseMode, MultipathStrategy, Port, PortDirection, PrivilegeMode, Protocol};

pub const HOST_V4: Ipv4Addr = Ipv4Addr::new(192, 168, 1, 2);
pub const TARGET_V4: Ipv4Addr = Ipv4Addr::new(10, 200, 0, 1);

pub fn host_v6() -> Ipv6Addr {
    "fd00:1::2".parse().unwrap()
}
pub fn target_v6() -> Ipv6Addr {
    "fd00:c8::1".parse().unwrap()
}

/// A protocol x family x strategy x port direction x privilege x extension-mode cell.
#[derive(Debug, Clone, Copy, PartialEq, Eq)]
pub struct Cell {
    pub protocol: Protocol,
    pub v6: bool,
    pub strategy: MultipathStrategy,
    /// 0 none, 1 fixed src, 2 fixed dest, 3 fixed both
    pub ports: u8,
    pub unprivileged: bool,
    pub ext: bool,
}

impl Cell {
    pub fn name(&self) -> String {
        format!(
            "{}/{}/{}/{}/{}/ext-{}",
            self.protocol,
            if self.v6 { "v6" } else { "v4" },
            self.strategy,
            ["none", "fsrc", "fdst", "fboth"][usize::from(self.ports)],
            if self.unprivileged { "unpriv" } else { "priv" },
            if self.ext { "on" } else { "off" }
        )
    }

    pub fn port_direction(&self, src: u16, dest: u16) -> PortDirection {
        match self.ports {
            0 => PortDirection::None,
            1 => PortDirection::FixedSrc(Port(src)),
            2 => PortDirection::FixedDest(Port(dest)),
            _ => PortDirection::FixedBoth(Port(src), Port(dest)),
        }
    }

    /// Unprivileged UDP with Paris/Dublin: accepted by the builder, rejected by the CLI; the
    /// kernel builds the datagram so the sequence cannot be carried in the checksum / IP id.
    pub fn is_unpriv_multipath(&self) -> bool {
        self.protocol == Protocol::Udp && self.unprivileged && self.strategy != MultipathStrategy::Classic
    }

    pub fn trace_cfg(&self) -> TraceCfg {
        let target = if self.v6 { IpAddr::V6(target_v6()) } else { IpAddr::V4(TARGET_V4) };
        let mut c = TraceCfg::new(target);
        c.protocol = self.protocol;
        c.strategy = self.strategy;
        c.ports = self.port_direction(5000, 33_500);
        c.privilege = if self.unprivileged { PrivilegeMode::Unprivileged } else { PrivilegeMode::Privileged };
        c.ext_mode = if self.ext { IcmpExtensionParseMode::Enabled } else { IcmpExtensionParseMode::Disabled };
        if self.v6 {
            c.packet_size = 104;
        }
        c
    }
}

/// All cells that `Builder::build` accepts and that are implemented (i.e. excluding the
/// combinations that C16 shows to be unimplemented).
pub fn all_cells(include_unpriv_multipath: bool) -> Vec<Cell> {
    let mut v = Vec::new();
    for v6 in [false, true] {
        for ext in [false, true] {
            for unprivileged in [false, true] {
                v.push(Cell {
                    protocol: Protocol::Icmp,
                    v6,
                    strategy: MultipathStrategy::Classic,
                    ports: 0,
                    unprivileged,
                    ext,
                });
                for ports in [1u8, 2] {
                    v.push(Cell {
                        protocol: Protocol::Tcp,
                        v6,
                        strategy: MultipathStrategy::Classic,
                        ports,
                        unprivileged,
                        ext,
                    });
                    v.push(Cell {
                        protocol: Protocol::Udp,
                        v6,
                        strategy: MultipathStrategy::Classic,
                        ports,
                        unprivileged,
                        ext,
                    });
                }
                for strategy in [MultipathStrategy::Paris, MultipathStrategy::Dublin] {
                    for ports in [1u8, 2, 3] {
                        if unprivileged && !include_unpriv_multipath {
                            continue;
                        }
                        v.push(Cell {
                            protocol: Protocol::Udp,
                            v6,
                            strategy,
                            ports,
                            unprivileged,
                            ext,
                        });
                    }
                }
            }
        }
    }
    v
}

pub fn hop_addr(v6: bool, hop: usize, branch: usize) -> IpAddr {
    if v6 {
        IpAddr::V6(Ipv6Addr::new(0xfd00, 0xa, hop as u16 + 1, branch as u16 + 1, 0, 0, 0, 1))
    } else {
        IpAddr::V4(Ipv4Addr::new(10, (hop + 1) as u8, branch as u8 + 1, 1))
    }
}

pub fn random_ext(r: &mut Prng) -> Vec<ExtObject> {
    let mut v = Vec::new();
    let n = r.below(3);
    for _ in 0..=n {
        if r.chance(2, 3) {
            let depth = r.range(1, 4) as usize;
            let entries: Vec<MplsEntry> = (0..depth)
                .map(|i| MplsEntry {
                    label: r.below(1 << 20) as u32,
                    exp: r.below(8) as u8,
                    s: u8::from(i + 1 == depth),
                    ttl: r.below(256) as u8,
                })
                .collect();
            v.push(mpls_object(&entries));
        } else {
            let len = r.below(5) as usize * 4;
            v.push(ExtObject {
                class_num: r.range(2, 250) as u8,
                c_type: r.below(256) as u8,
                payload: r.bytes(len),
            });
        }
    }
    v
}

#[derive(Debug, Clone, Copy)]
pub struct TopoOpts {
    pub max_hops: usize,
    pub allow_silent: bool,
    pub allow_loss: bool,
    pub allow_dup: bool,
    pub allow_ratelimit: bool,
    pub allow_ecmp: bool,
    pub allow_ext: bool,
    pub allow_silent_target: bool,
    /// Upper bound for response delays.
    pub max_delay_ns: u64,
    /// Percent chance for a hop to have a delay above `max_delay_ns` (up to 4x).
    pub slow_pct: u64,
}

impl TopoOpts {
    pub fn hostile(max_delay_ns: u64) -> Self {
        Self {
            max_hops: 14,
            allow_silent: true,
            allow_loss: true,
            allow_dup: true,
            allow_ratelimit: true,
            allow_ecmp: true,
            allow_ext: true,
            allow_silent_target: true,
            max_delay_ns,
            slow_pct: 10,
        }
    }
    pub fn clean(max_delay_ns: u64) -> Self {
        Self {
            max_hops: 14,
            allow_silent: false,
            allow_loss: false,
            allow_dup: false,
            allow_ratelimit: false,
            allow_ecmp: false,
            allow_ext: true,
            allow_silent_target: false,
            max_delay_ns,
            slow_pct: 0,
        }
    }
}

pub fn random_hop(r: &mut Prng, v6: bool, idx: usize, o: &TopoOpts, is_target: bool, target: IpAddr) -> HopSpec {
    let branches = if o.allow_ecmp && !is_target && r.chance(1, 4) { r.range(2, 4) as usize } else { 1 };
    let addrs: Vec<IpAddr> = if is_target { vec![target] } else { (0..branches).map(|b| hop_addr(v6, idx, b)).collect() };
    let base = r.range(50_000, o.max_delay_ns.max(50_001));
    let spread = if r.chance(1, 2) { 0 } else { r.below(base / 2 + 1) };
    let mut delay = (base, base + spread);
    if o.slow_pct > 0 && r.chance(o.slow_pct, 100) {
        let f = r.range(2, 4);
        delay = (delay.0 * f, delay.1 * f);
    }
    let behaviour = if is_target {
        if o.allow_silent_target && r.chance(1, 6) {
            Behaviour::Silent
        } else {
            Behaviour::Respond
        }
    } else if o.allow_silent && r.chance(1, 7) {
        Behaviour::Silent
    } else if o.allow_ratelimit && r.chance(1, 10) {
        Behaviour::RateLimit {
            burst: r.range(1, 3) as u32,
            refill_ns: r.range(100_000_000, 3_000_000_000),
        }
    } else {
        Behaviour::Respond
    };
    // RFC 4443 2.4(c): ICMPv6 errors include as much of the invoking packet as fits in 1280
    let quote = if v6 {
        r.below(4);
        Quote::Full
    } else {
        match r.below(4) {
        0 => Quote::Min8,
        1 => Quote::Plus(28),
        2 => Quote::Plus(r.range(8, 200) as usize),
            _ => Quote::Full,
        }
    };
    let (rfc4884, ext) = if o.allow_ext {
        match r.below(6) {
            0 => (Rfc4884::Compliant, random_ext(r)),
            1 => (Rfc4884::Legacy, random_ext(r)),
            2 => (Rfc4884::LengthOnly, Vec::new()),
            _ => (Rfc4884::None, Vec::new()),
        }
    } else {
        (Rfc4884::None, Vec::new())
    };
    HopSpec {
        addrs,
        behaviour,
        delay_ns: delay,
        loss_pct: if o.allow_loss && r.chance(1, 4) { r.range(5, 50) as u8 } else { 0 },
        dup_pct: if o.allow_dup && r.chance(1, 4) { r.range(10, 80) as u8 } else { 0 },
        dup_delay_ns: (1_000, r.range(1_000, o.max_delay_ns.max(2_000))),
        quote,
        q_ttl: r.below(2) as u8,
        q_fix_csum: r.chance(2, 3),
        tos_rewrite: if r.chance(1, 8) { Some(r.below(256) as u8) } else { None },
        outer_opts: !v6 && r.chance(1, 8),
        rfc4884,
        ext,
        nat: None,
        du_code: if is_target { 3 } else { 0 },
        router_unreach: if !is_target && r.chance(1, 12) { Some(*r.pick(&[0u8, 1, 13, 3])) } else { None },
    }
}

pub fn random_topology(r: &mut Prng, v6: bool, o: &TopoOpts) -> Topology {
    let n = if r.chance(1, 8) { 0 } else { r.range(1, o.max_hops as u64) as usize };
    let target = if v6 { IpAddr::V6(target_v6()) } else { IpAddr::V4(TARGET_V4) };
    let hops = (0..n).map(|i| random_hop(r, v6, i, o, false, target)).collect();
    let t = random_hop(r, v6, n, o, true, target);
    Topology {
        hops,
        target: t,
        tcp: match r.below(if o.allow_silent_target { 6 } else { 4 }) {
            0 | 1 => TcpMode::SynAck,
            2 | 3 => TcpMode::Rst,
            4 => TcpMode::Silent,
            // the connection attempt fails (timed out / network unreachable / reset by a
            // middlebox with another errno): the probe simply stays unanswered
            _ => TcpMode::Fails(*r.pick(&[libc::ETIMEDOUT, libc::ENETUNREACH, libc::ECONNRESET])),
        },
    }
}

pub fn world_cfg(topo: Topology, seed: u64) -> WorldCfg {
    WorldCfg {
        host_v4: HOST_V4,
        host_v6: host_v6(),
        topo,
        adversary: Adversary::default(),
        faults: FaultPlan::default(),
        seed,
        tracers: 1,
        alt_targets: Vec::new(),
        blackouts: Vec::new(),
        reroutes: Vec::new(),
        long_branch_extra: 0,
    }
}

pub fn ms(n: u64) -> Duration {
    Duration::from_millis(n)
}

pub fn describe_topology(t: &Topology) -> serde_json::Value {
    serde_json::json!({
        "distance": t.distance(),
        "tcp": format!("{:?}", t.tcp),
        "hops": t.hops.iter().chain(std::iter::once(&t.target)).map(|h| serde_json::json!({
            "addrs": h.addrs.iter().map(ToString::to_string).collect::<Vec<_>>(),
            "behaviour": format!("{:?}", h.behaviour),
            "delay_ns": [h.delay_ns.0, h.delay_ns.1],
            "loss_pct": h.loss_pct, "dup_pct": h.dup_pct,
            "quote": format!("{:?}", h.quote), "rfc4884": format!("{:?}", h.rfc4884), "ext_objects": h.ext.len(),
            "q_ttl": h.q_ttl, "tos_rewrite": h.tos_rewrite, "nat": h.nat.map(|n| format!("{n:?}")),
        })).collect::<Vec<_>>(),
    })
}
