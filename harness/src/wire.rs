//! Independent wire codec written from the RFC layouts (791, 792, 768, 793, 8200, 4443, 4884,
//! 4950, 1071).  Deliberately does NOT use `trippy-packet`, so that a codec defect in trippy
//! cannot cancel itself out in the simulator or the oracles.
use std::net::{IpAddr, Ipv4Addr, Ipv6Addr};

pub const PROTO_ICMP: u8 = 1;
pub const PROTO_TCP: u8 = 6;
pub const PROTO_UDP: u8 = 17;
pub const PROTO_ICMP6: u8 = 58;

/// RFC 1071 one's complement sum (not complemented) over the concatenation of `parts`.
pub fn ones_sum(parts: &[&[u8]]) -> u16 {
    let mut sum: u64 = 0;
    let mut carry_byte: Option<u8> = None;
    for part in parts {
        for &b in *part {
            match carry_byte.take() {
                None => carry_byte = Some(b),
                Some(hi) => sum += u64::from(u16::from_be_bytes([hi, b])),
            }
        }
    }
    if let Some(hi) = carry_byte {
        sum += u64::from(u16::from_be_bytes([hi, 0]));
    }
    while sum >> 16 != 0 {
        sum = (sum & 0xffff) + (sum >> 16);
    }
    sum as u16
}

/// RFC 1071 checksum: complement of the one's complement sum.
pub fn csum(parts: &[&[u8]]) -> u16 {
    !ones_sum(parts)
}

pub fn pseudo4(src: Ipv4Addr, dst: Ipv4Addr, proto: u8, len: usize) -> Vec<u8> {
    let mut v = Vec::with_capacity(12);
    v.extend_from_slice(&src.octets());
    v.extend_from_slice(&dst.octets());
    v.push(0);
    v.push(proto);
    v.extend_from_slice(&(len as u16).to_be_bytes());
    v
}

pub fn pseudo6(src: Ipv6Addr, dst: Ipv6Addr, next: u8, len: usize) -> Vec<u8> {
    let mut v = Vec::with_capacity(40);
    v.extend_from_slice(&src.octets());
    v.extend_from_slice(&dst.octets());
    v.extend_from_slice(&(len as u32).to_be_bytes());
    v.extend_from_slice(&[0, 0, 0, next]);
    v
}

pub fn pseudo(src: IpAddr, dst: IpAddr, proto: u8, len: usize) -> Vec<u8> {
    match (src, dst) {
        (IpAddr::V4(s), IpAddr::V4(d)) => pseudo4(s, d, proto, len),
        (IpAddr::V6(s), IpAddr::V6(d)) => pseudo6(s, d, proto, len),
        _ => panic!("mixed address families"),
    }
}

#[derive(Debug, Clone, PartialEq, Eq)]
pub struct Ip4 {
    pub ihl: u8,
    pub tos: u8,
    pub total_len: u16,
    pub id: u16,
    pub flags_frag: u16,
    pub ttl: u8,
    pub proto: u8,
    pub hdr_csum: u16,
    pub src: Ipv4Addr,
    pub dst: Ipv4Addr,
    pub options: Vec<u8>,
    pub payload: Vec<u8>,
}

impl Ip4 {
    /// Parse a (possibly truncated) IPv4 datagram.  Only the header must be complete.
    pub fn parse(b: &[u8]) -> Result<Self, String> {
        if b.len() < 20 {
            return Err(format!("ipv4: short buffer {}", b.len()));
        }
        if b[0] >> 4 != 4 {
            return Err(format!("ipv4: version {}", b[0] >> 4));
        }
        let ihl = b[0] & 0x0f;
        if ihl < 5 {
            return Err(format!("ipv4: ihl {ihl}"));
        }
        let hl = usize::from(ihl) * 4;
        if b.len() < hl {
            return Err(format!("ipv4: header {hl} > buffer {}", b.len()));
        }
        Ok(Self {
            ihl,
            tos: b[1],
            total_len: u16::from_be_bytes([b[2], b[3]]),
            id: u16::from_be_bytes([b[4], b[5]]),
            flags_frag: u16::from_be_bytes([b[6], b[7]]),
            ttl: b[8],
            proto: b[9],
            hdr_csum: u16::from_be_bytes([b[10], b[11]]),
            src: Ipv4Addr::new(b[12], b[13], b[14], b[15]),
            dst: Ipv4Addr::new(b[16], b[17], b[18], b[19]),
            options: b[20..hl].to_vec(),
            payload: b[hl..].to_vec(),
        })
    }

    pub fn header_bytes(&self) -> Vec<u8> {
        let mut h = vec![0u8; 20];
        h[0] = 0x40 | (self.ihl & 0x0f);
        h[1] = self.tos;
        h[2..4].copy_from_slice(&self.total_len.to_be_bytes());
        h[4..6].copy_from_slice(&self.id.to_be_bytes());
        h[6..8].copy_from_slice(&self.flags_frag.to_be_bytes());
        h[8] = self.ttl;
        h[9] = self.proto;
        h[10..12].copy_from_slice(&self.hdr_csum.to_be_bytes());
        h[12..16].copy_from_slice(&self.src.octets());
        h[16..20].copy_from_slice(&self.dst.octets());
        h.extend_from_slice(&self.options);
        h
    }

    pub fn bytes(&self) -> Vec<u8> {
        let mut v = self.header_bytes();
        v.extend_from_slice(&self.payload);
        v
    }

    /// Set total length and header checksum consistently.
    pub fn finalize(&mut self) {
        self.ihl = 5 + (self.options.len() / 4) as u8;
        self.total_len = (usize::from(self.ihl) * 4 + self.payload.len()) as u16;
        self.fix_hdr_csum();
    }

    pub fn fix_hdr_csum(&mut self) {
        self.hdr_csum = 0;
        let h = self.header_bytes();
        self.hdr_csum = csum(&[&h]);
    }

    pub fn hdr_csum_ok(&self) -> bool {
        ones_sum(&[&self.header_bytes()]) == 0xffff
    }
}

#[derive(Debug, Clone, PartialEq, Eq)]
pub struct Ip6 {
    pub tclass: u8,
    pub flow: u32,
    pub payload_len: u16,
    pub next: u8,
    pub hop_limit: u8,
    pub src: Ipv6Addr,
    pub dst: Ipv6Addr,
    pub payload: Vec<u8>,
}

impl Ip6 {
    pub fn parse(b: &[u8]) -> Result<Self, String> {
        if b.len() < 40 {
            return Err(format!("ipv6: short buffer {}", b.len()));
        }
        if b[0] >> 4 != 6 {
            return Err(format!("ipv6: version {}", b[0] >> 4));
        }
        let mut s = [0u8; 16];
        s.copy_from_slice(&b[8..24]);
        let mut d = [0u8; 16];
        d.copy_from_slice(&b[24..40]);
        Ok(Self {
            tclass: ((b[0] & 0x0f) << 4) | (b[1] >> 4),
            flow: u32::from_be_bytes([0, b[1] & 0x0f, b[2], b[3]]),
            payload_len: u16::from_be_bytes([b[4], b[5]]),
            next: b[6],
            hop_limit: b[7],
            src: Ipv6Addr::from(s),
            dst: Ipv6Addr::from(d),
            payload: b[40..].to_vec(),
        })
    }

    pub fn bytes(&self) -> Vec<u8> {
        let mut h = vec![0u8; 40];
        h[0] = 0x60 | (self.tclass >> 4);
        h[1] = ((self.tclass & 0x0f) << 4) | ((self.flow >> 16) as u8 & 0x0f);
        h[2] = (self.flow >> 8) as u8;
        h[3] = self.flow as u8;
        h[4..6].copy_from_slice(&self.payload_len.to_be_bytes());
        h[6] = self.next;
        h[7] = self.hop_limit;
        h[8..24].copy_from_slice(&self.src.octets());
        h[24..40].copy_from_slice(&self.dst.octets());
        h.extend_from_slice(&self.payload);
        h
    }
}

#[derive(Debug, Clone, PartialEq, Eq)]
pub struct Udp {
    pub sport: u16,
    pub dport: u16,
    pub len: u16,
    pub csum: u16,
    pub payload: Vec<u8>,
}

impl Udp {
    pub fn parse(b: &[u8]) -> Result<Self, String> {
        if b.len() < 8 {
            return Err(format!("udp: short buffer {}", b.len()));
        }
        Ok(Self {
            sport: u16::from_be_bytes([b[0], b[1]]),
            dport: u16::from_be_bytes([b[2], b[3]]),
            len: u16::from_be_bytes([b[4], b[5]]),
            csum: u16::from_be_bytes([b[6], b[7]]),
            payload: b[8..].to_vec(),
        })
    }
    pub fn bytes(&self) -> Vec<u8> {
        let mut v = Vec::with_capacity(8 + self.payload.len());
        v.extend_from_slice(&self.sport.to_be_bytes());
        v.extend_from_slice(&self.dport.to_be_bytes());
        v.extend_from_slice(&self.len.to_be_bytes());
        v.extend_from_slice(&self.csum.to_be_bytes());
        v.extend_from_slice(&self.payload);
        v
    }
    /// Build a UDP datagram with a correct checksum (as a kernel would for a dgram socket).
    pub fn build(src: IpAddr, dst: IpAddr, sport: u16, dport: u16, payload: &[u8]) -> Self {
        let mut u = Self {
            sport,
            dport,
            len: (8 + payload.len()) as u16,
            csum: 0,
            payload: payload.to_vec(),
        };
        let b = u.bytes();
        let mut c = csum(&[&pseudo(src, dst, PROTO_UDP, b.len()), &b]);
        if c == 0 {
            c = 0xffff;
        }
        u.csum = c;
        u
    }
}

/// Does a transport segment (with its checksum field in place) verify against the pseudo header?
pub fn transport_csum_ok(src: IpAddr, dst: IpAddr, proto: u8, segment: &[u8]) -> bool {
    ones_sum(&[&pseudo(src, dst, proto, segment.len()), segment]) == 0xffff
}

/// Build a minimal TCP SYN segment (what the kernel emits for `connect`), with 20 bytes of
/// options so that it resembles a real SYN (MSS, SACK-permitted, timestamps, window scale).
pub fn build_tcp_syn(src: IpAddr, dst: IpAddr, sport: u16, dport: u16, isn: u32) -> Vec<u8> {
    let mut v = vec![0u8; 40];
    v[0..2].copy_from_slice(&sport.to_be_bytes());
    v[2..4].copy_from_slice(&dport.to_be_bytes());
    v[4..8].copy_from_slice(&isn.to_be_bytes());
    v[12] = 10 << 4; // data offset 10 words
    v[13] = 0x02; // SYN
    v[14..16].copy_from_slice(&64240u16.to_be_bytes());
    let opts: [u8; 20] = [
        2, 4, 0x05, 0xb4, 4, 2, 8, 10, 0x12, 0x34, 0x56, 0x78, 0, 0, 0, 0, 1, 3, 3, 7,
    ];
    v[20..40].copy_from_slice(&opts);
    let c = csum(&[&pseudo(src, dst, PROTO_TCP, v.len()), &v]);
    v[16..18].copy_from_slice(&c.to_be_bytes());
    v
}

pub fn tcp_ports(b: &[u8]) -> Option<(u16, u16)> {
    if b.len() < 4 {
        return None;
    }
    Some((u16::from_be_bytes([b[0], b[1]]), u16::from_be_bytes([b[2], b[3]])))
}

/// An ICMP extension object (RFC 4884 section 7).
#[derive(Debug, Clone, PartialEq, Eq)]
pub struct ExtObject {
    pub class_num: u8,
    pub c_type: u8,
    pub payload: Vec<u8>,
}

/// An MPLS label stack entry (RFC 4950 / RFC 3032).
#[derive(Debug, Clone, Copy, PartialEq, Eq)]
pub struct MplsEntry {
    pub label: u32,
    pub exp: u8,
    pub s: u8,
    pub ttl: u8,
}

impl MplsEntry {
    pub fn bytes(&self) -> [u8; 4] {
        let w: u32 = ((self.label & 0xf_ffff) << 12)
            | (u32::from(self.exp & 7) << 9)
            | (u32::from(self.s & 1) << 8)
            | u32::from(self.ttl);
        w.to_be_bytes()
    }
}

pub fn mpls_object(entries: &[MplsEntry]) -> ExtObject {
    let mut payload = Vec::new();
    for e in entries {
        payload.extend_from_slice(&e.bytes());
    }
    ExtObject {
        class_num: 1,
        c_type: 1,
        payload,
    }
}

/// Encode an RFC 4884 extension structure: header (version 2, checksum) + objects.
pub fn build_extension(objects: &[ExtObject]) -> Vec<u8> {
    let mut v = vec![0x20, 0, 0, 0];
    for o in objects {
        let len = (4 + o.payload.len()) as u16;
        v.extend_from_slice(&len.to_be_bytes());
        v.push(o.class_num);
        v.push(o.c_type);
        v.extend_from_slice(&o.payload);
    }
    let c = csum(&[&v]);
    v[2..4].copy_from_slice(&c.to_be_bytes());
    v
}

/// How the original datagram and extension are laid out in an ICMP error.
#[derive(Debug, Clone, Copy, PartialEq, Eq)]
pub enum Rfc4884 {
    /// No extension, length field zero (classic RFC 792 / RFC 4443 message).
    None,
    /// No extension but a compliant non-zero length field.
    LengthOnly,
    /// Compliant: original datagram zero padded to >= 128 octets (and to a word boundary),
    /// length field set, extension appended.
    Compliant,
    /// Legacy / non-compliant: original datagram padded or truncated to exactly 128 octets,
    /// length field zero, extension appended.
    Legacy,
}

/// The body (after the 8 byte ICMP header) of an ICMP error plus the value of the length field.
pub struct ErrBody {
    pub length_field: u8,
    pub body: Vec<u8>,
    /// The original datagram field as sent (i.e. quote plus any zero padding).
    pub orig_field_len: usize,
}

pub fn build_err_body(quote: &[u8], ext: Option<&[u8]>, mode: Rfc4884, word: usize) -> ErrBody {
    match mode {
        Rfc4884::None => ErrBody {
            length_field: 0,
            body: quote.to_vec(),
            orig_field_len: quote.len(),
        },
        Rfc4884::LengthOnly => {
            let mut q = quote.to_vec();
            while q.len() % word != 0 {
                q.push(0);
            }
            ErrBody {
                length_field: (q.len() / word) as u8,
                orig_field_len: q.len(),
                body: q,
            }
        }
        Rfc4884::Compliant => {
            let mut q = quote.to_vec();
            while q.len() < 128 || q.len() % word != 0 {
                q.push(0);
            }
            let length_field = (q.len() / word) as u8;
            let orig_field_len = q.len();
            if let Some(e) = ext {
                q.extend_from_slice(e);
            }
            ErrBody {
                length_field,
                body: q,
                orig_field_len,
            }
        }
        Rfc4884::Legacy => {
            let mut q = quote.to_vec();
            q.resize(128, 0);
            if let Some(e) = ext {
                q.extend_from_slice(e);
            }
            ErrBody {
                length_field: 0,
                body: q,
                orig_field_len: 128,
            }
        }
    }
}

/// Build an ICMPv4 error message (type 11 or 3) with checksum.
pub fn build_icmp4_error(typ: u8, code: u8, body: &ErrBody) -> Vec<u8> {
    let mut v = vec![typ, code, 0, 0, 0, body.length_field, 0, 0];
    v.extend_from_slice(&body.body);
    let c = csum(&[&v]);
    v[2..4].copy_from_slice(&c.to_be_bytes());
    v
}

/// Build an ICMPv6 error message (type 3 or 1) with checksum.
pub fn build_icmp6_error(typ: u8, code: u8, body: &ErrBody, src: Ipv6Addr, dst: Ipv6Addr) -> Vec<u8> {
    let mut v = vec![typ, code, 0, 0, body.length_field, 0, 0, 0];
    v.extend_from_slice(&body.body);
    let c = csum(&[&pseudo6(src, dst, PROTO_ICMP6, v.len()), &v]);
    v[2..4].copy_from_slice(&c.to_be_bytes());
    v
}

/// Build an ICMP echo reply from an echo request message (v4: type 0, v6: type 129).
pub fn build_echo_reply(req: &[u8], v6: Option<(Ipv6Addr, Ipv6Addr)>) -> Vec<u8> {
    let mut v = req.to_vec();
    v[2] = 0;
    v[3] = 0;
    match v6 {
        None => {
            v[0] = 0;
            let c = csum(&[&v]);
            v[2..4].copy_from_slice(&c.to_be_bytes());
        }
        Some((src, dst)) => {
            v[0] = 129;
            let c = csum(&[&pseudo6(src, dst, PROTO_ICMP6, v.len()), &v]);
            v[2..4].copy_from_slice(&c.to_be_bytes());
        }
    }
    v
}

/// Wrap an ICMPv4 message into an IPv4 datagram from `src` to `dst`.
pub fn wrap_ip4(src: Ipv4Addr, dst: Ipv4Addr, proto: u8, ttl: u8, tos: u8, id: u16, options: &[u8], payload: &[u8]) -> Vec<u8> {
    let mut ip = Ip4 {
        ihl: 5,
        tos,
        total_len: 0,
        id,
        flags_frag: 0,
        ttl,
        proto,
        hdr_csum: 0,
        src,
        dst,
        options: options.to_vec(),
        payload: payload.to_vec(),
    };
    ip.finalize();
    ip.bytes()
}

/// RFC 1624 incremental checksum update: HC' = ~(~HC + ~m + m').
pub fn csum_update(hc: u16, old: u16, new: u16) -> u16 {
    let mut sum = u32::from(!hc) + u32::from(!old) + u32::from(new);
    while sum >> 16 != 0 {
        sum = (sum & 0xffff) + (sum >> 16);
    }
    !(sum as u16)
}

pub fn hex(b: &[u8]) -> String {
    let mut s = String::with_capacity(b.len() * 2);
    for x in b {
        s.push_str(&format!("{x:02x}"));
    }
    s
}

pub fn unhex(s: &str) -> Vec<u8> {
    let s: Vec<u8> = s.bytes().filter(|c| c.is_ascii_hexdigit()).collect();
    s.chunks(2)
        .map(|c| u8::from_str_radix(std::str::from_utf8(c).unwrap(), 16).unwrap())
        .collect()
}

#[cfg(test)]
mod tests {
    use super::*;

    #[test]
    fn rfc1071_example() {
        // RFC 1071 section 3 example: 00 01 f2 03 f4 f5 f6 f7 -> sum ddf2, checksum 220d
        let d = [0x00, 0x01, 0xf2, 0x03, 0xf4, 0xf5, 0xf6, 0xf7];
        assert_eq!(ones_sum(&[&d]), 0xddf2);
        assert_eq!(csum(&[&d]), 0x220d);
    }

    #[test]
    fn known_ipv4_header() {
        // wikipedia IPv4 header checksum example
        let h = unhex("45000073000040004011 0000 c0a80001c0a800c7");
        assert_eq!(csum(&[&h]), 0xb861);
    }

    #[test]
    fn icmp_echo_known() {
        // from trippy-packet doc: 08 00 f3 23 04 d2 00 0a
        let mut m = unhex("0800000004d2000a");
        let c = csum(&[&m]);
        m[2..4].copy_from_slice(&c.to_be_bytes());
        assert_eq!(hex(&m), "0800f32304d2000a");
    }

    #[test]
    fn incremental() {
        let mut d = unhex("45000073000040004011 0000 c0a80001c0a800c7");
        let c0 = csum(&[&d]);
        // change word at offset 12 (c0a8 -> 0a00)
        d[12] = 0x0a;
        d[13] = 0x00;
        let c1 = csum(&[&d]);
        assert_eq!(csum_update(c0, 0xc0a8, 0x0a00), c1);
    }

    #[test]
    fn mpls_bits() {
        let e = MplsEntry { label: 0xfffff, exp: 0, s: 0, ttl: 0 };
        assert_eq!(e.bytes(), [0xff, 0xff, 0xf0, 0x00]);
        let e = MplsEntry { label: 0, exp: 7, s: 1, ttl: 0xab };
        assert_eq!(e.bytes(), [0x00, 0x00, 0x0f, 0xab]);
    }
}
