//! Small deterministic PRNG (xoshiro256** seeded via splitmix64).  No external crates.
#[derive(Clone, Debug)]
pub struct Prng {
    s: [u64; 4],
}

fn splitmix(x: &mut u64) -> u64 {
    *x = x.wrapping_add(0x9E37_79B9_7F4A_7C15);
    let mut z = *x;
    z = (z ^ (z >> 30)).wrapping_mul(0xBF58_476D_1CE4_E5B9);
    z = (z ^ (z >> 27)).wrapping_mul(0x94D0_49BB_1331_11EB);
    z ^ (z >> 31)
}

impl Prng {
    pub fn new(seed: u64) -> Self {
        let mut x = seed;
        let s = [splitmix(&mut x), splitmix(&mut x), splitmix(&mut x), splitmix(&mut x)];
        Self { s }
    }
    /// Derive an independent stream.
    pub fn fork(&mut self, salt: u64) -> Self {
        let a = self.next_u64();
        Self::new(a ^ salt.wrapping_mul(0xD6E8_FEB8_6659_FD93))
    }
    pub fn next_u64(&mut self) -> u64 {
        let r = self.s[1].wrapping_mul(5).rotate_left(7).wrapping_mul(9);
        let t = self.s[1] << 17;
        self.s[2] ^= self.s[0];
        self.s[3] ^= self.s[1];
        self.s[1] ^= self.s[2];
        self.s[0] ^= self.s[3];
        self.s[2] ^= t;
        self.s[3] = self.s[3].rotate_left(45);
        r
    }
    pub fn next_u32(&mut self) -> u32 {
        (self.next_u64() >> 32) as u32
    }
    /// Uniform in [0, n) (n > 0).
    pub fn below(&mut self, n: u64) -> u64 {
        debug_assert!(n > 0);
        // multiply-shift; bias negligible for our n
        ((u128::from(self.next_u64()) * u128::from(n)) >> 64) as u64
    }
    /// Uniform in [lo, hi] inclusive.
    pub fn range(&mut self, lo: u64, hi: u64) -> u64 {
        lo + self.below(hi - lo + 1)
    }
    pub fn chance(&mut self, num: u64, den: u64) -> bool {
        self.below(den) < num
    }
    pub fn pick<'a, T>(&mut self, xs: &'a [T]) -> &'a T {
        &xs[self.below(xs.len() as u64) as usize]
    }
    pub fn fill(&mut self, buf: &mut [u8]) {
        for chunk in buf.chunks_mut(8) {
            let v = self.next_u64().to_le_bytes();
            chunk.copy_from_slice(&v[..chunk.len()]);
        }
    }
    pub fn bytes(&mut self, n: usize) -> Vec<u8> {
        let mut v = vec![0u8; n];
        self.fill(&mut v);
        v
    }
    pub fn shuffle<T>(&mut self, xs: &mut [T]) {
        for i in (1..xs.len()).rev() {
            let j = self.below(i as u64 + 1) as usize;
            xs.swap(i, j);
        }
    }
}
