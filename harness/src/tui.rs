//! Driving the real TUI application (`TuiApp` + `render`) on a ratatui `TestBackend`.
//!
//! The cycle and the routing of key presses mirror `frontend::run_app` (snapshot -> clamp -> flow
//! counts -> draw -> one key), in its three modes (help / settings / normal), so that no method is
//! called in a state the real loop cannot produce.
use crate::framework::{guarded, Panic};
use crate::mmdb;
use crate::prng::Prng;
use crossterm::event::{KeyCode, KeyEvent, KeyModifiers};
use ratatui::backend::TestBackend;
use ratatui::Terminal;
use std::collections::BTreeMap;
use std::net::IpAddr;
use std::time::Duration;
use trippy_core::{Builder, MultipathStrategy, Port, PortDirection, Protocol, Tracer};
use trippy_dns::{AsInfo, Config as DnsConfig, DnsEntry, DnsResolver, IpAddrFamily, ResolveMethod, Resolved, Unresolved};
use trippy_privilege::Privilege;
use trippy_tui::verif::{build_config, make_tui_config, render, AddressMode, Args, ConfigFile, GeoIpLookup, TraceInfo, TuiApp};

/// Everything that must not reach the screen for a hidden hop.
#[derive(Debug, Clone)]
pub struct Secrets {
    pub addr: IpAddr,
    pub ip: String,
    pub hostname: String,
    pub asn: String,
    pub as_name: String,
    pub as_prefix: String,
    pub as_cc: String,
    pub as_registry: String,
    pub city: String,
    pub region: String,
    pub country: String,
    pub country_name: String,
    pub lat: String,
    pub lon: String,
}

fn token(r: &mut Prng, n: usize) -> String {
    const C: &[u8] = b"bcdfghjkmnpqrstvwxz";
    (0..n).map(|_| C[r.below(C.len() as u64) as usize] as char).collect()
}

impl Secrets {
    pub fn new(addr: IpAddr, idx: usize, r: &mut Prng) -> Self {
        Self {
            addr,
            ip: addr.to_string(),
            hostname: format!("h{}.{}.example", token(r, 9), token(r, 6)),
            asn: format!("42{:08}", 10_000_019 + idx * 7_919),
            as_name: format!("NET-{}", token(r, 9).to_uppercase()),
            as_prefix: format!("{}.{}.{}.0/24", 193 + idx % 30, 57 + idx % 190, 61 + (idx * 7) % 190),
            as_cc: "ZQ".to_string(),
            as_registry: format!("reg{}", token(r, 7)),
            city: format!("Villa{}", token(r, 8)),
            region: format!("Prov{}", token(r, 8)),
            country: "XQ".to_string(),
            country_name: format!("Land{}", token(r, 8)),
            lat: format!("{}.{:04}", 11 + idx % 60, 1237 + idx * 13 % 8000),
            lon: format!("{}.{:04}", 13 + idx % 150, 4567 + idx * 17 % 5000),
        }
    }

    /// Strings that identify this hop and are long / unusual enough to be searched for.
    pub fn needles(&self) -> Vec<(&'static str, String)> {
        let mut v = vec![
            ("ip", self.ip.clone()),
            ("hostname", self.hostname.clone()),
            ("asn", self.asn.clone()),
            ("as-name", self.as_name.clone()),
            ("as-prefix", self.as_prefix.clone()),
            ("as-registry", self.as_registry.clone()),
            ("geoip-city", self.city.clone()),
            ("geoip-region", self.region.clone()),
            ("geoip-country", self.country_name.clone()),
            ("geoip-latitude", self.lat.clone()),
            ("geoip-longitude", self.lon.clone()),
        ];
        // fragments (a clipped table cell still leaks): the random part of each string is unique
        // enough at 7 characters; numeric strings need 8 leading characters
        let mut frags = Vec::new();
        for (k, s) in &v {
            let f = match *k {
                "ip" | "asn" | "as-prefix" => s.get(..8).map(str::to_string),
                "hostname" => s.get(1..8).map(str::to_string),
                "as-name" => s.get(4..11).map(str::to_string),
                "as-registry" => s.get(3..10).map(str::to_string),
                "geoip-city" => s.get(5..12).map(str::to_string),
                "geoip-region" | "geoip-country" => s.get(4..11).map(str::to_string),
                _ => None,
            };
            if let Some(f) = f {
                frags.push((*k, f));
            }
        }
        v.extend(frags);
        v
    }

    pub fn dns_entry(&self, with_as: bool, resolved: bool) -> DnsEntry {
        let asinfo = AsInfo {
            asn: self.asn.clone(),
            prefix: self.as_prefix.clone(),
            cc: self.as_cc.clone(),
            registry: self.as_registry.clone(),
            allocated: "2001-02-03".to_string(),
            name: self.as_name.clone(),
        };
        match (resolved, with_as) {
            (true, true) => DnsEntry::Resolved(Resolved::WithAsInfo(self.addr, vec![self.hostname.clone()], asinfo)),
            (true, false) => DnsEntry::Resolved(Resolved::Normal(self.addr, vec![self.hostname.clone()])),
            (false, true) => DnsEntry::NotFound(Unresolved::WithAsInfo(self.addr, asinfo)),
            (false, false) => DnsEntry::NotFound(Unresolved::Normal(self.addr)),
        }
    }

    pub fn geo_record(&self) -> BTreeMap<String, String> {
        let mut m = BTreeMap::new();
        m.insert("city".into(), self.city.clone());
        m.insert("region".into(), self.region.clone());
        m.insert("country".into(), self.country.clone());
        m.insert("country_name".into(), self.country_name.clone());
        m.insert("continent_name".into(), "Cont".into());
        m.insert("latitude".into(), self.lat.clone());
        m.insert("longitude".into(), self.lon.clone());
        m.insert("radius".into(), "50".into());
        m
    }
}

#[derive(Debug, Clone)]
pub struct TuiSetup {
    pub address_mode: &'static str,
    pub as_mode: &'static str,
    pub geoip_mode: &'static str,
    pub icmp_ext_mode: &'static str,
    pub lookup_as_info: bool,
    pub columns: String,
    pub privacy: Option<u8>,
    pub max_addrs: Option<u8>,
    pub traces: usize,
    pub protocol: Protocol,
    pub strategy: MultipathStrategy,
    pub max_flows: usize,
    pub max_samples: usize,
    pub with_geoip: bool,
}

pub struct Session {
    pub app: TuiApp,
    pub term: Terminal<TestBackend>,
    pub tracers: Vec<Tracer>,
    pub size: (u16, u16),
    mmdb_path: Option<std::path::PathBuf>,
}

impl Drop for Session {
    fn drop(&mut self) {
        if let Some(p) = &self.mmdb_path {
            let _ = std::fs::remove_file(p);
        }
    }
}

pub fn targets_for(n: usize) -> Vec<IpAddr> {
    (0..n).map(|i| IpAddr::V4(std::net::Ipv4Addr::new(10, 200, 0, i as u8 + 1))).collect()
}

/// The application and its tracers, without a terminal (the real event loop brings its own).
pub struct Parts {
    pub app: TuiApp,
    pub tracers: Vec<Tracer>,
    pub mmdb_path: Option<std::path::PathBuf>,
}

impl Session {
    pub fn new(setup: &TuiSetup, secrets: &[Secrets], unique: u64) -> Result<Self, String> {
        let Parts { app, tracers, mmdb_path } = Self::parts(setup, secrets, unique)?;
        let term = Terminal::new(TestBackend::new(120, 40)).map_err(|e| e.to_string())?;
        Ok(Self {
            app,
            term,
            tracers,
            size: (120, 40),
            mmdb_path,
        })
    }

    pub fn parts(setup: &TuiSetup, secrets: &[Secrets], unique: u64) -> Result<Parts, String> {
        let _ = trippy_tui::verif::set_locale(Some("en"));
        // GeoIP database with the secrets of every address
        let mmdb_path = if setup.with_geoip {
            let recs: Vec<(IpAddr, BTreeMap<String, String>)> = secrets.iter().map(|s| (s.addr, s.geo_record())).collect();
            let img = mmdb::build(&recs, "ipinfo verif.mmdb");
            let p = std::env::temp_dir().join(format!("vcheck-{}-{unique}.mmdb", std::process::id()));
            std::fs::write(&p, img).map_err(|e| e.to_string())?;
            Some(p)
        } else {
            None
        };
        let mut argv: Vec<String> = vec!["trip".into()];
        for i in 0..setup.traces {
            argv.push(format!("target{i}.example"));
        }
        argv.extend(["--tui-address-mode".into(), setup.address_mode.into()]);
        argv.extend(["--tui-as-mode".into(), setup.as_mode.into()]);
        argv.extend(["--tui-icmp-extension-mode".into(), setup.icmp_ext_mode.into()]);
        argv.extend(["--tui-custom-columns".into(), setup.columns.clone()]);
        argv.extend(["--dns-resolve-method".into(), "cloudflare".into()]);
        argv.extend(["--dns-ttl".into(), "1day".into()]);
        if setup.lookup_as_info {
            argv.push("--dns-lookup-as-info".into());
        }
        if let Some(p) = &mmdb_path {
            argv.extend(["--geoip-mmdb-file".into(), p.display().to_string()]);
            argv.extend(["--tui-geoip-mode".into(), setup.geoip_mode.into()]);
        }
        if let Some(n) = setup.privacy {
            argv.extend(["--tui-privacy-max-ttl".into(), n.to_string()]);
        }
        if let Some(n) = setup.max_addrs {
            argv.extend(["--tui-max-addrs".into(), n.to_string()]);
        }
        match setup.protocol {
            Protocol::Udp => {
                argv.push("--udp".into());
                if setup.strategy != MultipathStrategy::Classic {
                    argv.extend(["--multipath-strategy".into(), format!("{}", setup.strategy)]);
                }
            }
            Protocol::Tcp => argv.push("--tcp".into()),
            Protocol::Icmp => {}
        }
        argv.extend(["--max-flows".into(), setup.max_flows.to_string()]);
        argv.extend(["--max-samples".into(), setup.max_samples.to_string()]);
        let args = <Args as clap::Parser>::try_parse_from(&argv).map_err(|e| format!("clap: {e}"))?;
        let file: ConfigFile = toml::from_str("").map_err(|e| e.to_string())?;
        let cfg = build_config(args, file, &Privilege::new(true, false), 4242).map_err(|e| format!("build_config: {e} ({argv:?})"))?;
        let tui_config = make_tui_config(&cfg, "en".to_string());
        let resolver = DnsResolver::start(DnsConfig::new(ResolveMethod::Cloudflare, IpAddrFamily::Ipv4thenIpv6, Duration::from_millis(50), Duration::from_secs(86_400))).map_err(|e| e.to_string())?;
        for s in secrets {
            resolver.verif_seed(s.addr, s.dns_entry(setup.lookup_as_info, true));
        }
        let geoip = match &mmdb_path {
            Some(p) => {
                // the reader holds the whole file in memory: remove the file straight away, so that a
                // run which is killed (watchdog, abort inside a child) leaves nothing behind in /tmp
                let r = GeoIpLookup::from_file(p, "en".to_string());
                let _ = std::fs::remove_file(p);
                r.map_err(|e| format!("mmdb: {e:#}"))?
            }
            None => GeoIpLookup::empty(),
        };
        let ports = match setup.protocol {
            Protocol::Icmp => PortDirection::None,
            Protocol::Udp => PortDirection::FixedSrc(Port(5000)),
            Protocol::Tcp => PortDirection::FixedDest(Port(80)),
        };
        let tracers: Vec<Tracer> = targets_for(setup.traces)
            .into_iter()
            .enumerate()
            .map(|(i, t)| {
                Builder::new(t)
                    .protocol(setup.protocol)
                    .multipath_strategy(setup.strategy)
                    .port_direction(ports)
                    .trace_identifier(100 + i as u16)
                    .max_flows(cfg.max_flows())
                    .max_samples(setup.max_samples)
                    .max_rounds(Some(1))
                    .build()
                    .map_err(|e| e.to_string())
            })
            .collect::<Result<_, _>>()?;
        let traces: Vec<TraceInfo> = tracers.iter().enumerate().map(|(i, t)| TraceInfo::new(t.clone(), format!("target{i}.example"))).collect();
        let app = TuiApp::new(tui_config, resolver, geoip, traces);
        Ok(Parts { app, tracers, mmdb_path })
    }

    pub fn resize(&mut self, w: u16, h: u16) {
        self.term.backend_mut().resize(w, h);
        self.size = (w, h);
    }

    /// One iteration of the front end loop up to and including the draw.
    pub fn cycle(&mut self) -> Result<(), Panic> {
        let app = &mut self.app;
        let term = &mut self.term;
        guarded(|| {
            if app.frozen_start.is_none() {
                app.snapshot_trace_data();
                app.clamp_selected_hop();
                app.update_order_flow_counts();
            }
            term.draw(|f| render(f, app)).map(|_| ())
        })
        .map(|r| r.expect("test backend draw"))
    }

    /// The frame as rows of text.
    pub fn rows(&self) -> Vec<String> {
        let buf = self.term.backend().buffer();
        let area = buf.area;
        (0..area.height)
            .map(|y| (0..area.width).map(|x| buf[(x, y)].symbol().to_string()).collect::<String>())
            .collect()
    }

    /// Route one key press exactly as `run_app` does.  Returns false if the key quits.
    pub fn key(&mut self, key: KeyEvent) -> Result<bool, Panic> {
        let app = &mut self.app;
        guarded(|| route(app, key))
    }
}

/// Mirror of the key routing in `frontend::run_app`.
#[allow(clippy::too_many_lines, clippy::cognitive_complexity)]
fn route(app: &mut TuiApp, key: KeyEvent) -> bool {
    let ctrl_c = key.code == KeyCode::Char('c') && key.modifiers == KeyModifiers::CONTROL;
    // the bindings are copied out so that `app` can be borrowed mutably
    let b = &app.tui_config.bindings;
    macro_rules! is {
        ($f:ident) => {
            b.$f.check(key)
        };
    }
    if app.show_help {
        if is!(toggle_help) || is!(toggle_help_alt) || is!(clear_selection) || is!(quit) {
            app.toggle_help();
        } else if is!(toggle_settings) {
            app.toggle_help();
            app.toggle_settings();
        } else if is!(toggle_settings_tui) {
            app.toggle_help();
            app.show_settings_columns(0);
        } else if is!(toggle_settings_trace) {
            app.toggle_help();
            app.show_settings_columns(1);
        } else if is!(toggle_settings_dns) {
            app.toggle_help();
            app.show_settings_columns(2);
        } else if is!(toggle_settings_geoip) {
            app.toggle_help();
            app.show_settings_columns(3);
        } else if is!(toggle_settings_bindings) {
            app.toggle_help();
            app.show_settings_columns(4);
        } else if is!(toggle_settings_theme) {
            app.toggle_help();
            app.show_settings_columns(5);
        } else if is!(toggle_settings_columns) {
            app.toggle_help();
            app.show_settings_columns(6);
        }
    } else if app.show_settings {
        if is!(toggle_settings) || is!(clear_selection) || is!(quit) {
            app.toggle_settings();
        } else if is!(toggle_settings_tui) {
            app.show_settings_columns(0);
        } else if is!(toggle_settings_trace) {
            app.show_settings_columns(1);
        } else if is!(toggle_settings_dns) {
            app.show_settings_columns(2);
        } else if is!(toggle_settings_geoip) {
            app.show_settings_columns(3);
        } else if is!(toggle_settings_bindings) {
            app.show_settings_columns(4);
        } else if is!(toggle_settings_theme) {
            app.show_settings_columns(5);
        } else if is!(toggle_settings_columns) {
            app.show_settings_columns(6);
        } else if is!(previous_trace) {
            app.previous_settings_tab();
        } else if is!(next_trace) {
            app.next_settings_tab();
        } else if is!(next_hop) {
            app.next_settings_item();
        } else if is!(previous_hop) {
            app.previous_settings_item();
        } else if is!(toggle_chart) {
            app.toggle_column_visibility();
        } else if is!(next_hop_address) {
            app.move_column_down();
        } else if is!(previous_hop_address) {
            app.move_column_up();
        }
    } else if is!(toggle_help) || is!(toggle_help_alt) {
        app.toggle_help();
    } else if is!(toggle_settings) {
        app.toggle_settings();
    } else if is!(toggle_settings_tui) {
        app.show_settings_columns(0);
    } else if is!(toggle_settings_trace) {
        app.show_settings_columns(1);
    } else if is!(toggle_settings_dns) {
        app.show_settings_columns(2);
    } else if is!(toggle_settings_geoip) {
        app.show_settings_columns(3);
    } else if is!(toggle_settings_bindings) {
        app.show_settings_columns(4);
    } else if is!(toggle_settings_theme) {
        app.show_settings_columns(5);
    } else if is!(toggle_settings_columns) {
        app.show_settings_columns(6);
    } else if is!(next_hop) {
        app.next_hop();
    } else if is!(previous_hop) {
        app.previous_hop();
    } else if is!(previous_trace) {
        if app.show_flows {
            app.previous_flow();
        } else {
            app.previous_trace();
        }
    } else if is!(next_trace) {
        if app.show_flows {
            app.next_flow();
        } else {
            app.next_trace();
        }
    } else if is!(next_hop_address) {
        app.next_hop_address();
    } else if is!(previous_hop_address) {
        app.previous_hop_address();
    } else if is!(address_mode_ip) {
        app.tui_config.address_mode = AddressMode::Ip;
    } else if is!(address_mode_host) {
        app.tui_config.address_mode = AddressMode::Host;
    } else if is!(address_mode_both) {
        app.tui_config.address_mode = AddressMode::Both;
    } else if is!(toggle_freeze) {
        app.toggle_freeze();
    } else if is!(toggle_chart) {
        app.toggle_chart();
    } else if is!(toggle_map) {
        app.toggle_map();
    } else if is!(toggle_flows) {
        app.toggle_flows();
    } else if is!(expand_privacy) {
        app.expand_privacy();
    } else if is!(contract_privacy) {
        app.contract_privacy();
    } else if is!(contract_hosts_min) {
        app.contract_hosts_min();
    } else if is!(expand_hosts_max) {
        app.expand_hosts_max();
    } else if is!(contract_hosts) {
        app.contract_hosts();
    } else if is!(expand_hosts) {
        app.expand_hosts();
    } else if is!(chart_zoom_in) {
        app.zoom_in();
    } else if is!(chart_zoom_out) {
        app.zoom_out();
    } else if is!(clear_trace_data) {
        app.clear();
        app.clear_trace_data();
    } else if is!(clear_dns_cache) {
        // flushing the cache would trigger real lookups of the seeded addresses: the harness
        // re-seeds instead (see Session users)
        app.resolver.flush();
    } else if is!(clear_selection) {
        app.clear();
    } else if is!(toggle_as_info) {
        app.toggle_asinfo();
    } else if is!(toggle_hop_details) {
        app.toggle_hop_details();
    } else if is!(quit) || ctrl_c || is!(quit_preserve_screen) {
        return false;
    }
    true
}

/// The keys of every binding of the application plus some unbound ones.
pub fn all_keys(app: &TuiApp) -> Vec<(&'static str, KeyEvent)> {
    let b = &app.tui_config.bindings;
    macro_rules! k {
        ($($f:ident),*) => { vec![$((stringify!($f), KeyEvent::new(b.$f.code, b.$f.modifiers))),*] };
    }
    let mut v = k!(
        toggle_help, toggle_help_alt, toggle_settings, toggle_settings_tui, toggle_settings_trace, toggle_settings_dns, toggle_settings_geoip, toggle_settings_bindings,
        toggle_settings_theme, toggle_settings_columns, previous_hop, next_hop, previous_trace, next_trace, previous_hop_address, next_hop_address, address_mode_ip,
        address_mode_host, address_mode_both, toggle_freeze, toggle_chart, toggle_map, toggle_flows, expand_privacy, contract_privacy, expand_hosts, contract_hosts,
        expand_hosts_max, contract_hosts_min, chart_zoom_in, chart_zoom_out, clear_trace_data, clear_dns_cache, clear_selection, toggle_as_info, toggle_hop_details
    );
    v.push(("unbound", KeyEvent::new(KeyCode::Char('x'), KeyModifiers::NONE)));
    v.push(("unbound", KeyEvent::new(KeyCode::Enter, KeyModifiers::NONE)));
    v
}
