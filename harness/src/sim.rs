//! Run the real tracer (Builder -> Tracer::run_with -> Channel -> Strategy -> State) over a
//! simulated world and record everything it publishes.
use crate::clock;
use crate::world::{World, WorldCfg};
use std::net::IpAddr;
use std::sync::{Arc, Mutex};
use std::time::Duration;
use trippy_core::{
    Builder, CompletionReason, IcmpExtensionParseMode, MultipathStrategy, PortDirection, PrivilegeMode, ProbeStatus, Protocol, State, Tracer,
};

#[derive(Debug, Clone)]
pub struct TraceCfg {
    pub target: IpAddr,
    pub source: Option<IpAddr>,
    pub protocol: Protocol,
    pub strategy: MultipathStrategy,
    pub ports: PortDirection,
    pub privilege: PrivilegeMode,
    pub ext_mode: IcmpExtensionParseMode,
    pub first_ttl: u8,
    pub max_ttl: u8,
    pub max_inflight: u8,
    pub initial_sequence: u16,
    pub packet_size: u16,
    pub payload_pattern: u8,
    pub tos: u8,
    pub trace_id: u16,
    pub max_rounds: Option<usize>,
    pub min_round: Duration,
    pub max_round: Duration,
    pub grace: Duration,
    pub read_timeout: Duration,
    pub tcp_connect_timeout: Duration,
    pub max_samples: usize,
    pub max_flows: usize,
}

impl TraceCfg {
    pub fn new(target: IpAddr) -> Self {
        Self {
            target,
            source: None,
            protocol: Protocol::Icmp,
            strategy: MultipathStrategy::Classic,
            ports: PortDirection::None,
            privilege: PrivilegeMode::Privileged,
            ext_mode: IcmpExtensionParseMode::Disabled,
            first_ttl: 1,
            max_ttl: 64,
            max_inflight: 24,
            initial_sequence: 33434,
            packet_size: 84,
            payload_pattern: 0,
            tos: 0,
            trace_id: 1234,
            max_rounds: Some(3),
            min_round: Duration::from_millis(1000),
            max_round: Duration::from_millis(1000),
            grace: Duration::from_millis(100),
            read_timeout: Duration::from_millis(10),
            tcp_connect_timeout: Duration::from_millis(1000),
            max_samples: 256,
            max_flows: 64,
        }
    }

    pub fn builder(&self) -> Builder {
        Builder::new(self.target)
            .source_addr(self.source)
            .protocol(self.protocol)
            .multipath_strategy(self.strategy)
            .port_direction(self.ports)
            .privilege_mode(self.privilege)
            .icmp_extension_parse_mode(self.ext_mode)
            .first_ttl(self.first_ttl)
            .max_ttl(self.max_ttl)
            .max_inflight(self.max_inflight)
            .initial_sequence(self.initial_sequence)
            .packet_size(self.packet_size)
            .payload_pattern(self.payload_pattern)
            .tos(self.tos)
            .trace_identifier(self.trace_id)
            .max_rounds(self.max_rounds)
            .min_round_duration(self.min_round)
            .max_round_duration(self.max_round)
            .grace_duration(self.grace)
            .read_timeout(self.read_timeout)
            .tcp_connect_timeout(self.tcp_connect_timeout)
            .max_samples(self.max_samples)
            .max_flows(self.max_flows)
    }

    pub fn cell(&self) -> String {
        let v = if self.target.is_ipv6() { "v6" } else { "v4" };
        let pd = match self.ports {
            PortDirection::None => "none".to_string(),
            PortDirection::FixedSrc(_) => "fsrc".to_string(),
            PortDirection::FixedDest(_) => "fdst".to_string(),
            PortDirection::FixedBoth(_, _) => "fboth".to_string(),
        };
        format!(
            "{}/{}/{}/{}/{}/ext-{}",
            self.protocol,
            v,
            self.strategy,
            pd,
            if self.privilege == PrivilegeMode::Privileged { "priv" } else { "unpriv" },
            if self.ext_mode == IcmpExtensionParseMode::Enabled { "on" } else { "off" }
        )
    }
}

/// A round as published to the `run_with` callback.
#[derive(Debug, Clone)]
pub struct PubRound {
    pub index: usize,
    pub probes: Vec<ProbeStatus>,
    pub largest_ttl: u8,
    pub reason: CompletionReason,
    /// Virtual instant (unique tick) taken inside the callback.
    pub t_publish: u64,
    /// Index into the world log at the instant of the callback (entries < log_len precede it).
    pub log_len: usize,
    /// Snapshot of the tracer state taken inside the callback (after the state update).
    pub snapshot: Option<State>,
}

#[derive(Debug)]
pub struct RunResult {
    pub rounds: Vec<PubRound>,
    pub result: Result<(), String>,
    pub final_state: State,
    pub t_end: u64,
}

pub struct RunOpts {
    pub snapshots: bool,
}

/// Run a tracer on the current thread as tracer `idx` of `world`.
pub fn run_tracer(world: &Arc<World>, idx: usize, tracer: &Tracer, opts: &RunOpts) -> RunResult {
    let guard = world.attach(idx);
    // virtual-time budget: a round lasts at most max-round-duration plus one read timeout, so a
    // tracer limited to n rounds that is still running after three times that (plus 2 s for the
    // set-up) is not going to stop; it is stopped by failing its socket calls (see World)
    if let Some(n) = tracer.max_rounds() {
        let per = ns(tracer.max_round_duration()) + ns(tracer.read_timeout()) + 1_000_000;
        let budget = 2_000_000_000 + (n.0.get() as u64 + 1).saturating_mul(per).saturating_mul(3);
        let mut w = world.inner.lock().unwrap();
        let d = world.clock.peek().saturating_add(budget);
        w.virtual_deadline = Some(w.virtual_deadline.map_or(d, |x| x.max(d)));
    }
    let rounds: Mutex<Vec<PubRound>> = Mutex::new(Vec::new());
    let res = tracer.run_with(|round| {
        let t_publish = world.clock.tick();
        let log_len = world.inner.lock().unwrap().log.len();
        let snapshot = if opts.snapshots { Some(tracer.snapshot()) } else { None };
        let mut r = rounds.lock().unwrap();
        let index = r.len();
        r.push(PubRound {
            index,
            probes: round.probes.to_vec(),
            largest_ttl: round.largest_ttl.0,
            reason: round.reason,
            t_publish,
            log_len,
            snapshot,
        });
    });
    let t_end = world.clock.peek();
    drop(guard);
    RunResult {
        rounds: rounds.into_inner().unwrap(),
        result: res.map_err(|e| e.to_string()),
        final_state: tracer.snapshot(),
        t_end,
    }
}

/// Build + run a single tracer over a fresh world.
pub fn run_single(wcfg: WorldCfg, tcfg: &TraceCfg, snapshots: bool) -> Result<(Arc<World>, RunResult), String> {
    let world = World::new(wcfg);
    let tracer = tcfg.builder().build().map_err(|e| format!("build: {e}"))?;
    let r = run_tracer(&world, 0, &tracer, &RunOpts { snapshots });
    Ok((world, r))
}

pub fn ns(d: Duration) -> u64 {
    d.as_nanos() as u64
}

pub fn st_ns(t: std::time::SystemTime) -> u64 {
    clock::from_system_time(t)
}
