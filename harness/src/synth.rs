//! Construction of synthetic probe statuses through public fields.
use std::net::IpAddr;
use std::time::SystemTime;
use trippy_core::verif::{Checksum, ProbeFailed};
use trippy_core::{Extensions, IcmpPacketType, Probe, ProbeComplete, TypeOfService};

#[allow(clippy::too_many_arguments)]
pub fn complete(
    p: Probe,
    host: IpAddr,
    received: SystemTime,
    icmp_packet_type: IcmpPacketType,
    tos: Option<TypeOfService>,
    expected_udp_checksum: Option<u16>,
    actual_udp_checksum: Option<u16>,
    extensions: Option<Extensions>,
) -> ProbeComplete {
    ProbeComplete {
        sequence: p.sequence,
        identifier: p.identifier,
        src_port: p.src_port,
        dest_port: p.dest_port,
        ttl: p.ttl,
        round: p.round,
        sent: p.sent,
        host,
        received,
        icmp_packet_type,
        tos,
        expected_udp_checksum: expected_udp_checksum.map(Checksum),
        actual_udp_checksum: actual_udp_checksum.map(Checksum),
        extensions,
    }
}

pub fn failed(p: Probe) -> ProbeFailed {
    ProbeFailed {
        sequence: p.sequence,
        identifier: p.identifier,
        src_port: p.src_port,
        dest_port: p.dest_port,
        ttl: p.ttl,
        round: p.round,
        sent: p.sent,
    }
}
