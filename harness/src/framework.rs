//! Check framework: verdicts, violations, known findings, evidence, panic capture, parallel runner.
use crate::clock;
use serde_json::{json, Map, Value};
use std::cell::RefCell;
use std::collections::{BTreeMap, BTreeSet};
use std::panic::{catch_unwind, AssertUnwindSafe};
use std::sync::atomic::{AtomicUsize, Ordering};
use std::sync::Mutex;

#[derive(Debug, Clone, Copy, PartialEq, Eq)]
pub enum Tier {
    Quick,
    Thorough,
}

impl Tier {
    pub fn name(self) -> &'static str {
        match self {
            Self::Quick => "quick",
            Self::Thorough => "thorough",
        }
    }
    pub fn pick<T>(self, q: T, t: T) -> T {
        match self {
            Self::Quick => q,
            Self::Thorough => t,
        }
    }
}

#[derive(Debug, Clone)]
pub struct Violation {
    /// Oracle clause that failed.
    pub clause: String,
    /// Signature used to match known findings: `clause|site`.
    pub site: String,
    pub detail: String,
    /// What is needed to replay the case.
    pub replay: Value,
}

impl Violation {
    pub fn new(clause: &str, site: impl Into<String>, detail: impl Into<String>, replay: Value) -> Self {
        Self {
            clause: clause.to_string(),
            site: site.into(),
            detail: detail.into(),
            replay,
        }
    }
    pub fn signature(&self) -> String {
        format!("{}|{}", self.clause, self.site)
    }
}

/// A captured panic.
#[derive(Debug, Clone)]
pub struct Panic {
    pub message: String,
    pub file: String,
    pub line: u32,
}

impl Panic {
    /// Did the panic originate in trippy (as opposed to the harness or a dependency)?
    pub fn in_repo(&self) -> bool {
        self.file.contains("/repo/crates/") || self.file.contains("/repo-dev/crates/") || self.file.starts_with("crates/")
    }
    /// A normalised site: file (relative to the repository) without line number.
    pub fn site(&self) -> String {
        let f = self.file.rsplit("/repo/").next().unwrap_or(&self.file);
        let kind = if self.message.contains("overflow") {
            "overflow"
        } else if self.message.contains("out of range") || self.message.contains("out of bounds") || self.message.contains("slice index") {
            "bounds"
        } else if self.message.contains("not implemented") {
            "unimplemented"
        } else if self.message.contains("unreachable") {
            "unreachable"
        } else if self.message.contains("unwrap") {
            "unwrap"
        } else {
            "assert"
        };
        format!("{f}:{kind}")
    }
}

thread_local! {
    static LAST_PANIC: RefCell<Option<Panic>> = const { RefCell::new(None) };
}

/// The most recent panic on any thread (for panics that escape every `guarded` scope).
static LAST_PANIC_ANYWHERE: std::sync::Mutex<Option<Panic>> = std::sync::Mutex::new(None);

pub fn last_panic_anywhere() -> Option<Panic> {
    LAST_PANIC_ANYWHERE.lock().ok().and_then(|p| p.clone())
}

pub fn install_panic_hook() {
    std::panic::set_hook(Box::new(|info| {
        let message = if let Some(s) = info.payload().downcast_ref::<&str>() {
            (*s).to_string()
        } else if let Some(s) = info.payload().downcast_ref::<String>() {
            s.clone()
        } else {
            "<non-string panic>".to_string()
        };
        let (mut file, mut line) = info.location().map_or(("<unknown>".to_string(), 0), |l| (l.file().to_string(), l.line()));
        let mut message = message;
        // a panic raised inside a dependency (registry crate / std): attribute it to the innermost
        // caller that is either trippy code or harness code, from the backtrace
        let in_repo = file.contains("/repo/crates/") || file.contains("/repo-dev/crates/") || file.starts_with("crates/");
        let in_harness = file.starts_with("src/") || file.contains("/verif/harness/src/");
        if !in_repo && !in_harness {
            let bt = std::backtrace::Backtrace::force_capture().to_string();
            let mut prev_fn = String::new();
            for l in bt.lines() {
                let t = l.trim();
                if let Some(at) = t.strip_prefix("at ") {
                    let is_repo = at.contains("/repo/crates/") || at.contains("/repo-dev/crates/");
                    let is_harness = at.starts_with("./src/") || at.starts_with("src/") || at.contains("/verif/harness/src/");
                    if is_repo || is_harness {
                        if is_repo {
                            let mut parts = at.rsplitn(3, ':');
                            let _col = parts.next();
                            let ln = parts.next().and_then(|x| x.parse::<u32>().ok()).unwrap_or(0);
                            let f = parts.next().unwrap_or(at).to_string();
                            message = format!("(raised in a dependency at {file}:{line}, called from {prev_fn}) {message}");
                            file = f;
                            line = ln;
                        }
                        break;
                    }
                } else {
                    prev_fn = t.to_string();
                }
            }
        }
        if let Ok(mut g) = LAST_PANIC_ANYWHERE.lock() {
            *g = Some(Panic { message: message.clone(), file: file.clone(), line });
        }
        let _ = LAST_PANIC.try_with(|p| {
            *p.borrow_mut() = Some(Panic { message, file, line });
        });
    }));
}

/// Run `f`, capturing a panic instead of unwinding further.
pub fn guarded<T>(f: impl FnOnce() -> T) -> Result<T, Panic> {
    let _ = LAST_PANIC.try_with(|p| p.borrow_mut().take());
    match catch_unwind(AssertUnwindSafe(f)) {
        Ok(v) => Ok(v),
        Err(_) => Err(LAST_PANIC.with(|p| p.borrow_mut().take()).unwrap_or(Panic {
            message: "<panic not captured>".into(),
            file: "<unknown>".into(),
            line: 0,
        })),
    }
}

/// Result of one scenario.
#[derive(Default)]
pub struct Outcome {
    pub violations: Vec<Violation>,
    /// Non-vacuous evaluations per oracle clause.
    pub hits: BTreeMap<&'static str, u64>,
    /// Signature of the scenario if it is non-trivial by the property's rule.
    pub nontrivial: Option<String>,
    /// Arbitrary counters merged (summed) into the evidence.
    pub counters: BTreeMap<String, u64>,
    /// Set-valued observations merged (union) into the evidence and reported by size.
    pub sets: BTreeMap<String, BTreeSet<String>>,
    pub sample: Option<Value>,
    /// A harness problem (not a property violation): makes the run inconclusive.
    pub harness_error: Option<String>,
}

impl Outcome {
    pub fn hit(&mut self, clause: &'static str) {
        *self.hits.entry(clause).or_insert(0) += 1;
    }
    pub fn hit_n(&mut self, clause: &'static str, n: u64) {
        *self.hits.entry(clause).or_insert(0) += n;
    }
    pub fn count(&mut self, name: &str, n: u64) {
        *self.counters.entry(name.to_string()).or_insert(0) += n;
    }
    pub fn observe(&mut self, set: &str, item: impl Into<String>) {
        self.sets.entry(set.to_string()).or_default().insert(item.into());
    }
    pub fn violate(&mut self, clause: &'static str, site: impl Into<String>, detail: impl Into<String>, replay: Value) {
        self.violations.push(Violation::new(clause, site, detail, replay));
    }
    /// Keep only what the given oracle clauses (plus the crash / termination clauses) produced: a
    /// workload borrowed from another property is judged by this property's clauses only.
    pub fn retain_clauses(mut self, keep: &[&str], label: &str) -> Self {
        let always = ["no_panic", "run_ends_within_virtual_time_budget"];
        self.violations.retain(|v| keep.contains(&v.clause.as_str()) || always.contains(&v.clause.as_str()));
        self.hits.retain(|k, _| keep.contains(k));
        self.sets.clear();
        self.sample = None;
        self.counters = self.counters.into_iter().map(|(k, v)| (format!("{label}:{k}"), v)).collect();
        self.nontrivial = self.nontrivial.map(|s| format!("{label}|{s}"));
        self
    }
}

pub struct Report {
    pub property: String,
    pub level: &'static str,
    pub tier: Tier,
    pub seed: u64,
    pub rule: String,
    pub assumptions: Vec<String>,
    pub evaluations: u64,
    pub violations: Vec<Violation>,
    pub hits: BTreeMap<&'static str, u64>,
    pub required_clauses: Vec<&'static str>,
    pub nontrivial: BTreeSet<String>,
    pub counters: BTreeMap<String, u64>,
    pub sets: BTreeMap<String, BTreeSet<String>>,
    pub samples: Vec<Value>,
    pub extras: Map<String, Value>,
    pub harness_errors: Vec<String>,
    pub exhaustive: Option<bool>,
    sig_counts: BTreeMap<String, u64>,
    start_ns: u64,
}

impl Report {
    pub fn new(property: &str, level: &'static str, tier: Tier, seed: u64) -> Self {
        Self {
            property: property.to_string(),
            level,
            tier,
            seed,
            rule: String::new(),
            assumptions: Vec::new(),
            evaluations: 0,
            violations: Vec::new(),
            hits: BTreeMap::new(),
            required_clauses: Vec::new(),
            nontrivial: BTreeSet::new(),
            counters: BTreeMap::new(),
            sets: BTreeMap::new(),
            samples: Vec::new(),
            extras: Map::new(),
            harness_errors: Vec::new(),
            exhaustive: None,
            sig_counts: BTreeMap::new(),
            start_ns: clock::real_now_ns(),
        }
    }

    pub fn merge(&mut self, o: Outcome) {
        self.evaluations += 1;
        for (k, v) in o.hits {
            *self.hits.entry(k).or_insert(0) += v;
        }
        for (k, v) in o.counters {
            *self.counters.entry(k).or_insert(0) += v;
        }
        for (k, v) in o.sets {
            self.sets.entry(k).or_default().extend(v);
        }
        if let Some(n) = o.nontrivial {
            self.nontrivial.insert(n);
        }
        if let Some(s) = o.sample {
            if self.samples.len() < 4 {
                self.samples.push(s);
            }
        }
        if let Some(e) = o.harness_error {
            if self.harness_errors.len() < 20 {
                self.harness_errors.push(e);
            }
        }
        for v in o.violations {
            // keep the first few witnesses of every distinct signature, count the rest
            let c = self.sig_counts.entry(v.signature()).or_insert(0);
            *c += 1;
            if *c <= 3 {
                self.violations.push(v);
            }
        }
    }

    /// Run `n` scenarios in parallel on all cores; `f(i)` must be deterministic in `i`.
    pub fn run_parallel(&mut self, n: usize, f: impl Fn(usize) -> Outcome + Sync) {
        let threads = std::thread::available_parallelism().map_or(8, |n| n.get()).min(n.max(1));
        let next = AtomicUsize::new(0);
        let results: Mutex<Vec<(usize, Outcome)>> = Mutex::new(Vec::new());
        std::thread::scope(|s| {
            for _ in 0..threads {
                s.spawn(|| loop {
                    let i = next.fetch_add(1, Ordering::SeqCst);
                    if i >= n {
                        break;
                    }
                    let o = match guarded(|| f(i)) {
                        Ok(o) => o,
                        Err(p) => {
                            let mut o = Outcome::default();
                            o.harness_error = Some(format!("scenario {i}: uncaught panic at {}:{}: {}", p.file, p.line, p.message));
                            o
                        }
                    };
                    let mut r = results.lock().unwrap();
                    r.push((i, o));
                });
            }
        });
        let mut r = results.into_inner().unwrap();
        r.sort_by_key(|(i, _)| *i);
        for (_, o) in r {
            self.merge(o);
        }
    }

    /// Like `run_parallel`, for work that may never return (a hang is itself an observation):
    /// detached worker threads report progress; a worker whose current step exceeds `deadline_s`
    /// is abandoned (it dies with the process) and `on_hang(item, context)` supplies the outcome.
    pub fn run_parallel_watchdog(
        &mut self,
        n: usize,
        deadline_s: u64,
        f: impl Fn(usize, &Progress) -> Outcome + Send + Sync + 'static,
        on_hang: impl Fn(usize, &str) -> Outcome,
    ) {
        use std::sync::mpsc;
        use std::sync::Arc;
        let threads = std::thread::available_parallelism().map_or(8, |n| n.get()).min(n.max(1));
        let next = Arc::new(AtomicUsize::new(0));
        let f = Arc::new(f);
        let (tx, rx) = mpsc::channel::<(usize, Outcome)>();
        let mut workers: Vec<Progress> = Vec::new();
        let spawn = |workers: &mut Vec<Progress>| {
            let p = Progress::default();
            workers.push(p.clone());
            let (next, f, tx) = (next.clone(), f.clone(), tx.clone());
            std::thread::spawn(move || loop {
                let i = next.fetch_add(1, Ordering::SeqCst);
                if i >= n {
                    p.set_item(None);
                    break;
                }
                p.set_item(Some(i));
                let o = match guarded(|| f(i, &p)) {
                    Ok(o) => o,
                    Err(pn) => {
                        let mut o = Outcome::default();
                        o.harness_error = Some(format!("scenario {i}: uncaught panic at {}:{}: {}", pn.file, pn.line, pn.message));
                        o
                    }
                };
                if p.abandoned() || tx.send((i, o)).is_err() {
                    break;
                }
            });
        };
        for _ in 0..threads {
            spawn(&mut workers);
        }
        let mut results: Vec<(usize, Outcome)> = Vec::new();
        let mut done = 0usize;
        while done < n {
            match rx.recv_timeout(std::time::Duration::from_millis(500)) {
                Ok(r) => {
                    results.push(r);
                    done += 1;
                }
                Err(_) => {
                    let now = clock::real_now_ns();
                    let mut respawn = 0;
                    for w in &workers {
                        if let Some((item, since, ctx)) = w.current() {
                            if !w.abandoned() && now.saturating_sub(since) > deadline_s * 1_000_000_000 {
                                w.abandon();
                                results.push((item, on_hang(item, &ctx)));
                                done += 1;
                                respawn += 1;
                            }
                        }
                    }
                    for _ in 0..respawn {
                        spawn(&mut workers);
                    }
                }
            }
        }
        results.sort_by_key(|(i, _)| *i);
        for (_, o) in results {
            self.merge(o);
        }
    }

    /// Write evidence, print verdict lines, and return the process exit code.
    pub fn finish(mut self) -> i32 {
        let wall_s = (clock::real_now_ns() - self.start_ns) as f64 / 1e9;
        let known = KnownFindings::load();
        // group violations by signature
        let mut by_sig: BTreeMap<String, Vec<&Violation>> = BTreeMap::new();
        for v in &self.violations {
            by_sig.entry(v.signature()).or_default().push(v);
        }
        let mut new_sigs = Vec::new();
        let mut known_sigs = Vec::new();
        for (sig, vs) in &by_sig {
            let n = self.sig_counts.get(sig).copied().unwrap_or(vs.len() as u64) as usize;
            if let Some(what) = known.open(&self.property, sig) {
                known_sigs.push((sig.clone(), what, n));
            } else {
                new_sigs.push((sig.clone(), vs[0].clone(), n));
            }
        }
        let missing: Vec<&str> = self
            .required_clauses
            .iter()
            .copied()
            .filter(|c| self.hits.get(c).copied().unwrap_or(0) == 0)
            .collect();
        let inconclusive = !self.harness_errors.is_empty() || !missing.is_empty() || self.nontrivial.len() < 2;

        let mut coverage = Map::new();
        coverage.insert("evaluations".into(), json!(self.evaluations));
        coverage.insert("distinct_nontrivial".into(), json!(self.nontrivial.len()));
        coverage.insert("rule".into(), json!(self.rule));
        if self.samples.is_empty() {
            self.samples.push(json!({"note": "no sample recorded"}));
        }
        coverage.insert("samples".into(), json!(self.samples));
        if let Some(e) = self.exhaustive {
            coverage.insert("exhaustive".into(), json!(e));
        }
        coverage.insert("oracle_clause_hits".into(), json!(self.hits));
        coverage.insert("counters".into(), json!(self.counters));
        let set_sizes: BTreeMap<&String, usize> = self.sets.iter().map(|(k, v)| (k, v.len())).collect();
        coverage.insert("distinct_observed".into(), json!(set_sizes));
        let set_examples: BTreeMap<&String, Vec<&String>> = self.sets.iter().map(|(k, v)| (k, v.iter().take(40).collect())).collect();
        coverage.insert("distinct_observed_examples".into(), json!(set_examples));
        coverage.insert(
            "profile".into(),
            json!(if cfg!(debug_assertions) { "strict (debug-assertions, overflow-checks on)" } else { "shipped (assertions off)" }),
        );
        coverage.insert(
            "known_findings_seen".into(),
            json!(known_sigs.iter().map(|(s, w, n)| json!({"signature": s, "what": w, "occurrences": n})).collect::<Vec<_>>()),
        );
        coverage.insert(
            "new_violations".into(),
            json!(new_sigs.iter().map(|(s, v, n)| json!({"signature": s, "detail": v.detail, "occurrences": n})).collect::<Vec<_>>()),
        );
        if !missing.is_empty() {
            coverage.insert("clauses_never_evaluated".into(), json!(missing));
        }
        if !self.harness_errors.is_empty() {
            coverage.insert("harness_errors".into(), json!(self.harness_errors));
        }
        let verdict = if !new_sigs.is_empty() {
            "violated"
        } else if inconclusive {
            "inconclusive"
        } else {
            "held_on_observed"
        };
        coverage.insert("verdict".into(), json!(verdict));
        for (k, v) in std::mem::take(&mut self.extras) {
            coverage.insert(k, v);
        }
        let evidence = json!({
            "property_id": self.property,
            "tier": self.tier.name(),
            "seed": self.seed,
            "level": self.level,
            "coverage": Value::Object(coverage),
            "assumptions": self.assumptions,
            "wall_s": wall_s,
            "violations": new_sigs.len(),
        });
        let dir = verif_dir();
        let _ = std::fs::create_dir_all(format!("{dir}/evidence/replay"));
        // the shipped-profile pass of a thorough run must not clobber the strict evidence
        let suffix = std::env::var("VERIF_EVIDENCE_SUFFIX").unwrap_or_default();
        let path = format!("{dir}/evidence/{}{}.json", self.property, suffix);
        if let Err(e) = std::fs::write(&path, serde_json::to_string_pretty(&evidence).unwrap()) {
            eprintln!("cannot write {path}: {e}");
        }
        println!(
            "{} {} seed={} evaluations={} distinct_nontrivial={} wall={:.1}s verdict={}",
            self.property,
            self.tier.name(),
            self.seed,
            self.evaluations,
            self.nontrivial.len(),
            wall_s,
            verdict
        );
        for (k, v) in &self.hits {
            println!("  clause {k}: {v}");
        }
        for (sig, what, n) in &known_sigs {
            println!("KNOWN-FINDING: property={} {} [{} occurrences; signature {}]", self.property, what, n, sig);
        }
        // listed findings that this run did not happen to reproduce are still announced
        for (sig, what) in known.all_for(&self.property) {
            if !known_sigs.iter().any(|(s, _, _)| *s == sig) {
                println!("KNOWN-FINDING: property={} {} [0 occurrences in this run; signature {}]", self.property, what, sig);
            }
        }
        let mut code = 0;
        for (i, (sig, v, n)) in new_sigs.iter().enumerate() {
            let rp = format!("{dir}/evidence/replay/{}-{}-{}.json", self.property, self.seed, i);
            let body = json!({"property": self.property, "tier": self.tier.name(), "seed": self.seed, "signature": sig, "clause": v.clause, "detail": v.detail, "occurrences": n, "case": v.replay});
            let _ = std::fs::write(&rp, serde_json::to_string_pretty(&body).unwrap());
            println!("VIOLATION property={} replay={}", self.property, rp);
            println!("  signature: {sig}");
            println!("  detail: {}", v.detail);
            code = 1;
        }
        if code == 0 && inconclusive {
            for e in &self.harness_errors {
                println!("INCONCLUSIVE property={} harness error: {e}", self.property);
            }
            if !missing.is_empty() {
                println!("INCONCLUSIVE property={} oracle clauses never evaluated: {missing:?}", self.property);
            }
            if self.nontrivial.len() < 2 {
                println!("INCONCLUSIVE property={} fewer than 2 distinct non-trivial cases", self.property);
            }
            code = 2;
        }
        code
    }
}

pub fn verif_dir() -> String {
    std::env::var("VERIF_DIR").unwrap_or_else(|_| "/verif".to_string())
}

pub struct KnownFindings {
    open: Vec<(String, String, String)>,
}

impl KnownFindings {
    pub fn load() -> Self {
        let path = format!("{}/known_findings.json", verif_dir());
        let mut open = Vec::new();
        if let Ok(s) = std::fs::read_to_string(&path) {
            if let Ok(v) = serde_json::from_str::<Value>(&s) {
                if let Some(a) = v.get("open").and_then(Value::as_array) {
                    for f in a {
                        let g = |k: &str| f.get(k).and_then(Value::as_str).unwrap_or("").to_string();
                        open.push((g("property"), g("signature"), g("what")));
                    }
                }
            }
        }
        Self { open }
    }
    pub fn all_for(&self, property: &str) -> Vec<(String, String)> {
        self.open.iter().filter(|(p, _, _)| p == property).map(|(_, s, w)| (s.clone(), w.clone())).collect()
    }
    pub fn open(&self, property: &str, sig: &str) -> Option<String> {
        self.open.iter().find(|(p, s, _)| p == property && s == sig).map(|(_, _, w)| w.clone())
    }
}

/// Progress of a detached worker: which item it is on and what it was last doing.
#[derive(Clone, Default)]
pub struct Progress {
    inner: std::sync::Arc<Mutex<ProgressInner>>,
}

#[derive(Default)]
struct ProgressInner {
    item: Option<usize>,
    since: u64,
    context: String,
    abandoned: bool,
}

impl Progress {
    fn set_item(&self, item: Option<usize>) {
        let mut g = self.inner.lock().unwrap();
        g.item = item;
        g.since = clock::real_now_ns();
        g.context.clear();
    }
    /// Mark the start of a step that is expected to return quickly.
    pub fn step(&self, context: impl FnOnce() -> String) {
        let mut g = self.inner.lock().unwrap();
        g.since = clock::real_now_ns();
        g.context = context();
    }
    fn current(&self) -> Option<(usize, u64, String)> {
        let g = self.inner.lock().unwrap();
        g.item.map(|i| (i, g.since, g.context.clone()))
    }
    fn abandon(&self) {
        self.inner.lock().unwrap().abandoned = true;
    }
    fn abandoned(&self) -> bool {
        self.inner.lock().unwrap().abandoned
    }
}
