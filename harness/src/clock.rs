//! Virtual time.
//!
//! The harness binary defines its own `clock_gettime`, which the linker prefers over libc's for
//! every call made from this executable (std's `SystemTime::now()` / `Instant::now()` included).
//! A thread that is attached to a `VClock` is served virtual time, which ticks by 1ns on every
//! read (so that all timestamps taken in a run are unique and totally ordered) and otherwise only
//! moves when the simulated world advances it; every other thread gets the real clock through a
//! raw syscall.
use std::cell::Cell;
use std::sync::atomic::{AtomicU64, Ordering};
use std::sync::Arc;
use std::time::{Duration, SystemTime, UNIX_EPOCH};

/// Virtual epoch: 2023-11-14T22:13:20Z.
pub const EPOCH_NS: u64 = 1_700_000_000_000_000_000;

#[derive(Debug)]
pub struct VClock {
    now_ns: AtomicU64,
    /// How far a read moves the clock: 1ns by default; 0 = a clock of finite resolution, which
    /// returns the same instant until the simulated world moves time (waits, arrivals).
    step_ns: AtomicU64,
}

impl VClock {
    pub fn new() -> Arc<Self> {
        Arc::new(Self {
            now_ns: AtomicU64::new(EPOCH_NS),
            step_ns: AtomicU64::new(1),
        })
    }
    /// Read the clock without ticking.
    pub fn peek(&self) -> u64 {
        self.now_ns.load(Ordering::SeqCst)
    }
    /// Read the clock, ticking by 1ns (unless the step was changed): the returned value is unique.
    pub fn tick(&self) -> u64 {
        let step = self.step_ns.load(Ordering::SeqCst);
        self.now_ns.fetch_add(step, Ordering::SeqCst) + step
    }
    /// Change how far a read moves the clock.
    pub fn set_step(&self, step_ns: u64) {
        self.step_ns.store(step_ns, Ordering::SeqCst);
    }
    /// Advance the clock to at least `t`.
    pub fn advance_to(&self, t: u64) {
        self.now_ns.fetch_max(t, Ordering::SeqCst);
    }
}

thread_local! {
    static CLOCK: Cell<*const VClock> = const { Cell::new(std::ptr::null()) };
}

/// Guard which keeps the current thread attached to a virtual clock.
pub struct Attached {
    _clock: Arc<VClock>,
    prev: *const VClock,
}

pub fn attach(clock: &Arc<VClock>) -> Attached {
    let prev = CLOCK.with(|c| c.replace(Arc::as_ptr(clock)));
    Attached {
        _clock: clock.clone(),
        prev,
    }
}

impl Drop for Attached {
    fn drop(&mut self) {
        CLOCK.with(|c| c.set(self.prev));
    }
}

pub fn is_attached() -> bool {
    CLOCK.try_with(|c| !c.get().is_null()).unwrap_or(false)
}

/// Convert virtual ns to a `SystemTime`.
pub fn to_system_time(ns: u64) -> SystemTime {
    UNIX_EPOCH + Duration::from_nanos(ns)
}

/// Convert a `SystemTime` to ns since the unix epoch.
pub fn from_system_time(t: SystemTime) -> u64 {
    t.duration_since(UNIX_EPOCH).map(|d| d.as_nanos() as u64).unwrap_or(0)
}

/// The real wall clock (never virtual), for watchdogs and wall time measurements.
pub fn real_now_ns() -> u64 {
    let mut ts = libc::timespec {
        tv_sec: 0,
        tv_nsec: 0,
    };
    unsafe {
        libc::syscall(libc::SYS_clock_gettime, libc::CLOCK_MONOTONIC, &mut ts as *mut libc::timespec);
    }
    ts.tv_sec as u64 * 1_000_000_000 + ts.tv_nsec as u64
}

/// Interposed `clock_gettime`.
///
/// # Safety
/// `ts` must be a valid pointer, as for libc's `clock_gettime`.
#[no_mangle]
pub unsafe extern "C" fn clock_gettime(clk: libc::clockid_t, ts: *mut libc::timespec) -> libc::c_int {
    let p = CLOCK.try_with(Cell::get).unwrap_or(std::ptr::null());
    if p.is_null() {
        return libc::syscall(libc::SYS_clock_gettime, clk, ts) as libc::c_int;
    }
    let t = (*p).tick();
    (*ts).tv_sec = (t / 1_000_000_000) as libc::time_t;
    (*ts).tv_nsec = (t % 1_000_000_000) as libc::c_long;
    0
}
