#!/usr/bin/env bash
# usage: confirm_mutant.sh <id> <patch.diff> <demo.rs> <file-to-insert-into> <anchor-line-substring> <crate> <test-filter>
# Confirms in a scratch worktree: (1) existing tests pass with the patch, (2) demo fails with it, (3) demo passes without it.
set -u
id="$1"; patch="$2"; demo="$3"; file="$4"; anchor="$5"; crate="$6"; filter="$7"
wt=/tmp/confirm-$id
export CARGO_TARGET_DIR="${CONFIRM_TARGET:-/tmp/confirm-target}"
git -C /repo worktree remove --force "$wt" 2>/dev/null
git -C /repo worktree add -q "$wt" HEAD || exit 3
cd "$wt"
git apply "$patch" || { echo "PATCH DOES NOT APPLY"; exit 3; }
echo "--- existing tests with the patch"
cargo test --workspace --offline 2>&1 | grep -E "^test result|FAILED|failed" | sort | uniq -c
insert() { python3 - "$file" "$anchor" "$demo" <<'PY'
import sys
f,anchor,demo=sys.argv[1:4]
s=open(f).read(); d=open(demo).read()
if anchor=='APPEND':
    i=len(s)
elif anchor.startswith('LINE:'):
    # before line n (1-based)
    n=int(anchor[5:]); i=0
    for _ in range(n-1):
        i=s.index('\n',i)+1
elif anchor.startswith('LASTBRACE'):
    # before the n-th last line consisting of a closing brace (inside the trailing `mod tests`)
    n=int(anchor[len('LASTBRACE'):] or 1)
    i=len(s)
    for _ in range(n):
        i=s.rstrip()[:i].rfind('}')
    i=s.rfind('\n',0,i)+1
else:
    i=s.rfind('\n',0,s.index(anchor))+1
open(f,'w').write(s[:i]+d+'\n'+s[i:])
PY
}
insert
echo "--- demo WITH the patch (expected: FAILED)"
cargo test -p "$crate" --offline --lib "$filter" 2>&1 | grep -E "^test result|^test .*(ok|FAILED)|error\[" | head -5
git checkout -q -- . ; insert
echo "--- demo WITHOUT the patch (expected: ok)"
cargo test -p "$crate" --offline --lib "$filter" 2>&1 | grep -E "^test result|^test .*(ok|FAILED)|error\[" | head -5
cd /; git -C /repo worktree remove --force "$wt"
