#!/usr/bin/env python3
"""Generate /verif/MANIFEST.json from the table below (kept next to the checks so they stay in sync)."""
import json, os, subprocess, sys

HERE = os.path.dirname(os.path.dirname(os.path.abspath(__file__)))

def hook_commits():
    out = subprocess.run(["git", "-C", "/repo", "log", "--format=%H %s"], capture_output=True, text=True).stdout
    return [l.split()[0] for l in out.splitlines() if l.split(" ", 1)[1].startswith("verif-hooks:")]

# id -> (category, technique, level text, level note, design ref)
CHECKS = {}

def add(pid, category, technique, text, note, ref):
    CHECKS[pid] = dict(category=category, technique=technique, text=text, note=note, ref=ref)

SIM_NOTE = ("Trusted base: the harness's simulated socket layer / network model (harness/src/world.rs), the interposed virtual clock, "
            "the independent RFC codec (harness/src/wire.rs) and the oracle code; verdicts cover only the executions produced (counts in the evidence file).")

add("C01", "exploration", "runtime monitoring: ground-truth event-log join (simulated sockets + virtual clock) against published rounds and snapshots",
    "The real Builder/Tracer/Channel/Strategy/State run over simulated sockets in every builder-accepted configuration cell; an offline monitor joins the socket-call log (unique virtual timestamps) with every published round and checks each probe status, responder, kind, timestamps and the snapshot totals against ground truth. Exploration is the right level: the quantifier is an unbounded product of topologies, schedules and configurations, sampled by seed with measured coverage.",
    SIM_NOTE, "DESIGN.md 3 C01")
add("C03", "exploration", "runtime monitoring: adversarial packet injection + ground-truth classification of every packet read; multi-threaded tracers under a baton scheduler",
    "Each genuine response is accompanied by duplicates, late copies and near-miss forgeries (8 classes); every packet the tracer reads is classified by the simulator, and probe statuses, completion reason, path length, send schedule and round timing are recomputed from genuine accepted responses only. 2..4 tracers with the CLI's identifiers share one host ICMP queue and must each match a solo run.",
    SIM_NOTE + " The CLI identifier assignment is executed through a hook; the launcher's spawn path is not.", "DESIGN.md 3 C03")

NOT_APPLICABLE = []

def main():
    checks = []
    for pid in sorted(CHECKS):
        c = CHECKS[pid]
        checks.append({
            "property_id": pid,
            "quick_cmd": f"./check {pid} quick",
            "thorough_cmd": f"./check {pid} thorough",
            "evidence_file": f"/verif/evidence/{pid}.json",
            "replay_cmd_template": f"./check {pid} quick --replay {{path}}",
            "engine": "vcheck",
            "level_claimed": {"category": c["category"], "text": c["text"], "design_ref": c["ref"]},
            "level_note": c["note"],
            "technique": c["technique"],
        })
    props = [json.loads(l)["id"] for l in open(os.path.join(HERE, "properties.jsonl"))]
    na = [x for x in NOT_APPLICABLE]
    claimed = set(CHECKS)
    for p in props:
        if p not in claimed and p not in {x["property_id"] for x in na}:
            na.append({"property_id": p, "reason": "check not built yet in this round (planned, see DESIGN.md section 3); not a limit of the technique"})
    manifest = {
        "version": 1,
        "setup_cmd": "cd harness && CARGO_NET_OFFLINE=true cargo build --offline",
        "hooks": {
            "guard": "cargo feature `verif-hooks` (trippy-core, trippy-tui, trippy-dns; default off)",
            "enable": "the harness crate depends on the /repo crates by path with features = [\"verif-hooks\"]; ./check rebuilds it from /repo's working tree on every run",
            "baseline_off_cmd": "cd /repo && cargo nextest run --workspace --no-fail-fast --test-threads 8 --offline || cargo test --workspace --no-fail-fast --offline",
            "source_commits": hook_commits(),
            "add_only": True,
        },
        "engines": [
            {"name": "vcheck", "path": "harness/", "serves_properties": sorted(CHECKS), "kind_free_text": "Rust harness: simulated sockets + virtual clock + event-log oracles over the real trippy crates (runtime monitoring)"},
        ],
        "checks": checks,
        "not_applicable": na,
        "notes": "Exit codes: 0 held on everything explored (KNOWN-FINDING lines for entries of known_findings.json), 1 VIOLATION, 2 inconclusive (build failure, harness error, watchdog, monitors saw too little).",
    }
    with open(os.path.join(HERE, "MANIFEST.json"), "w") as f:
        json.dump(manifest, f, indent=1)
        f.write("\n")

if __name__ == "__main__":
    main()
