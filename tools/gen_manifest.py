#!/usr/bin/env python3
"""Generate /verif/MANIFEST.json from the table below (kept next to the checks so they stay in sync)."""
import json, os, subprocess, sys

HERE = os.path.dirname(os.path.dirname(os.path.abspath(__file__)))

def hook_commits():
    out = subprocess.run(["git", "-C", "/repo", "log", "--format=%H %s"], capture_output=True, text=True).stdout
    return [l.split()[0] for l in out.splitlines() if l.split(" ", 1)[1].startswith("verif-hooks:")]

# id -> (category, technique, level text, level note, design ref)
CHECKS = {}

def add(pid, category, technique, text, note, ref):
    CHECKS[pid] = dict(category=category, technique=technique, text=text, note=note, ref=ref)

SIM_NOTE = ("Trusted base: the harness's simulated socket layer / network model (harness/src/world.rs), the interposed virtual clock, "
            "the independent RFC codec (harness/src/wire.rs) and the oracle code; verdicts cover only the executions produced (counts in the evidence file).")

add("C01", "exploration", "runtime monitoring: ground-truth event-log join (simulated sockets + virtual clock) against published rounds and snapshots",
    "The real Builder/Tracer/Channel/Strategy/State run over simulated sockets in every builder-accepted configuration cell; an offline monitor joins the socket-call log (unique virtual timestamps) with every published round and checks each probe status, responder, kind, timestamps and the snapshot totals against ground truth. Exploration is the right level: the quantifier is an unbounded product of topologies, schedules and configurations, sampled by seed with measured coverage.",
    SIM_NOTE, "DESIGN.md 3 C01")
add("C03", "exploration", "runtime monitoring: adversarial packet injection + ground-truth classification of every packet read; multi-threaded tracers under a baton scheduler",
    "Each genuine response is accompanied by duplicates, late copies and near-miss forgeries (8 classes); every packet the tracer reads is classified by the simulator, and probe statuses, completion reason, path length, send schedule and round timing are recomputed from genuine accepted responses only. 2..4 tracers with the CLI's identifiers share one host ICMP queue and must each match a solo run.",
    SIM_NOTE + " The CLI identifier assignment is executed through a hook; the launcher's spawn path is not.", "DESIGN.md 3 C03")

add("C02", "exploration", "runtime monitoring: lossless simulated paths with per-hop quotation shapes + near-miss forgeries; ground-truth join of every published probe",
    "Every probe issued over 254-hop lossless worlds must be recognised from its quotation (IPv4 header+8..full, IPv6 full, RFC 4884 shapes, TTL/checksum/TOS rewritten); near-miss forgeries arriving first must complete nothing. Thorough walks the initial sequences so that every issuable sequence value is issued per cell.",
    SIM_NOTE, "DESIGN.md 3 C02")
add("C04", "exploration", "runtime monitoring: hostile-input sweeps and mutation through the real receive path, running tracers and every packet view with all Rust dynamic checks on (panic = violation); supplementary Miri pass",
    "Systematic sweeps of every attacker-controlled length/offset field against buffer lengths, random mutations and noise are fed to Network::recv_probe on a real Channel, injected into running tracers, and to every accessor / iterator / Debug impl of all 19 packet views; any panic (bounds, overflow, unwrap, assert) is a violation, Err values are allowed.",
    "Trusted base: the harness input generators and the panic capture; strict profile (overflow checks, debug assertions) primary, shipped profile in thorough.", "DESIGN.md 3 C04")
add("C05", "exploration", "runtime monitoring: reference-model monitor (non-incremental re-aggregation) over State getters after every update_from_round",
    "Thousands of synthetic round histories (and, in C01, the rounds of the real strategy) go through State::update_from_round; after every round every getter of every hop is compared with a straightforward recomputation and the conservation laws are asserted separately.",
    "Trusted base: harness/src/reagg.rs (written from the property text, RELEASES.md 0.12 and the repository's scenario files).", "DESIGN.md 3 C05")
add("C06", "exploration", "runtime monitoring: offline checker over the simulated socket log (send order vs. accepted genuine responses)",
    "The send schedule of every round is reconstructed from the socket log and checked against the discipline (ttl order, max-ttl, stop after the target answered, established distance, in-flight window, first-ttl always sent) with a bookkeeping model fed from ground truth only.",
    SIM_NOTE, "DESIGN.md 3 C06")
add("C07", "exploration", "runtime monitoring: sequence monitors over published rounds under address-in-use storms + walk of the real allocator through a hook, (round start, round size) graph coverage measured",
    "Sequence numbers of every published round are checked (consecutive, < 65535, <= 512, forward or restart, disjoint from the previous round, capacity error on exhaustion, Dublin/IPv6 payload bound); the real TracerState is additionally walked over its (round start, round size) graph for boundary initial sequences in both regimes.",
    SIM_NOTE + " SeqMachine hook wraps the private TracerState.", "DESIGN.md 3 C07")
add("C08", "exploration", "runtime monitoring: virtual-time checker of publish instants against accepted-response instants",
    "With clock_gettime interposed, every publish instant is compared with the timing policy computed from ground truth (duration, last accepted response, target answered); all five publish-time cases and the non-publishing iterations in between are observed.",
    SIM_NOTE, "DESIGN.md 3 C08")
add("C09", "fault_enumeration", "runtime monitoring with exhaustive fault injection at the socket boundary (every call index x errno, consecutive runs, pairs)",
    "For small base configurations every socket call of the run is failed once with every errno it can return (plus runs of 2-3 consecutive failures and, in thorough, pairs), and the result, the published prefix, slot states and the snapshot error are judged; larger configurations get random fault sequences, silent and flooding networks.",
    SIM_NOTE + " The transient / fatal classification of errno kinds follows the mapping documented in net/ipv4.rs.", "DESIGN.md 3 C09")
add("C10", "exploration", "runtime monitoring: invariant checks on snapshots after every published round (real strategy) and after synthetic rounds",
    "After every round the hop window, target hop, is_target / is_in_round flags and the absence of panics are checked against the probed ttls and published path lengths; path lengths are recomputed from genuine responses and compared with the true distance on stable paths; outages produce silent rounds.",
    SIM_NOTE, "DESIGN.md 3 C10")
add("C11", "exploration", "runtime monitoring: independent RFC decoder over every datagram captured at the simulated send socket",
    "Every datagram handed to a send socket (or built by the simulated kernel from the socket options) in every cell x size x tos x pattern x ttl 1..254 is decoded by the independent decoder and compared with the probe and the configuration.",
    SIM_NOTE, "DESIGN.md 3 C11")
add("C12", "exploration", "runtime monitoring: table-driven bit-field oracle over setter/getter executions (exhaustive for parameters up to 16 bits)",
    "For every field of every packet type, every value of the setter's parameter (<= 16 bits; sampled above) is written over several backgrounds and the whole buffer compared with a generic bit-field writer at the RFC position; getters and constructors likewise.",
    "Trusted base: the field table in harness/src/props/c12.rs (transcribed from the RFC diagrams) and the generic writer.", "DESIGN.md 3 C12")
add("C13", "exploration", "runtime monitoring: differential check against an independent RFC 1071 routine; Paris datagrams captured at the simulated socket",
    "All six checksum functions over every length 0..1024 x five content kinds x many address pairs are compared with an independent implementation and re-verified with the checksum inserted; Paris datagrams dispatched by the real tracer are captured and verified.",
    "Trusted base: harness/src/wire.rs (checked against the RFC 1071 worked example and known packets).", "DESIGN.md 3 C13")
add("C14", "exploration", "runtime monitoring: encode with an independent RFC 4884/4950 encoder, decode with the real views, iterators and receive path; corruption pass",
    "Messages in all four layouts with 0..8 objects and MPLS stacks of 0..16 entries are decoded by the four error views, iterators, Extensions::try_from and two real channels (parsing on/off); corruptions of each message must keep slices inside the message, non-overlapping, iteration bounded and panic-free.",
    "Trusted base: the encoder in harness/src/wire.rs.", "DESIGN.md 3 C14")
add("C15", "exploration", "runtime monitoring: online invariant monitor over State after every round (ECMP worlds and synthetic histories)",
    "An online monitor checks after every round: dense bounded ids, flows only extended, attribution agreeing by position with every responder, matching rounds attributed at capacity, default flow counting every round, per-flow statistics equal to the re-aggregation of exactly the attributed rounds.",
    SIM_NOTE, "DESIGN.md 3 C15")
add("C19", "exploration", "runtime monitoring: NAT-rewriting simulated paths; ground-truth quoted checksums vs. Hop::last_nat_status",
    "Paths with 0..3 NAT devices, silent hops and all port directions: each responding hop's status is compared with the ground truth (quoted checksum vs. previous responder / probe as sent); non Dublin/IPv4/UDP cells must stay NotApplicable.",
    SIM_NOTE, "DESIGN.md 3 C19")
add("C16", "exploration", "runtime monitoring: differential monitor over the real option-resolution path (clap parser + TOML config file + defaults) and the real Builder; accepted configurations are run over simulated sockets",
    "Random (command line, config file) pairs go through the real clap parser, the real TOML loader and TrippyConfig::build_config; every resolved field is compared with an independent precedence model (command line > file > default), derived fields with their documented derivation, the tracer and front end configuration produced by the application's own start_tracer / make_tui_config must carry every resolved value, and every accepted configuration is handed to the real Builder and run for rounds over simulated sockets: it must run without a configuration-caused failure. The Builder alone is also driven over the configuration product.",
    SIM_NOTE + " The option table in harness/src/props/c16.rs is transcribed from docs / trippy-config-sample.toml.", "DESIGN.md 3 C16")
add("C17", "exploration", "runtime monitoring: the real TuiApp + render() driven on a ratatui TestBackend by random key sessions interleaved with trace updates, panic capture and a per-step watchdog",
    "Sessions of hundreds of steps interleave every bound key (routed as run_app routes them), terminal resizes down to 1x1, trace snapshots that grow / shrink / empty / change flows, clears and multiple traces; each step draws the real UI; any panic or a draw that does not return is a violation; after every step the selection invariants are asserted.",
    "Trusted base: the key routing mirrored in harness/src/tui.rs from frontend.rs::run_app (the event loop itself needs a terminal and is not executed); TestBackend in place of crossterm.", "DESIGN.md 3 C17")
add("C18", "exploration", "runtime monitoring: canary tokens planted in every private data source, every rendered cell of every frame scanned",
    "Unique canary strings are planted in the hostnames, AS records, GeoIp records and addresses of private hops (ttl <= privacy-max-ttl); the same sessions as C17 run in every view (table, details, map, chart, help, settings, flows) and every frame's cells are scanned for any fragment of a canary; hops beyond the private range must still show theirs (so the scan is known to be able to see them).",
    "Trusted base: as C17; the canary fragment scanner.", "DESIGN.md 3 C18")
add("C20", "exploration", "runtime monitoring: real OS threads (tracer + readers + clear) on the real RwLock<State>, stamped call/return history checked offline against the sequential model; failpoints stretch the windows",
    "One real tracer thread, 1..12 snapshot reader threads and a clear() thread run concurrently; every snapshot is hashed over all getters of all flows and compared with the state obtained by replaying exactly the rounds it claims to hold (ids b-n+1..b) through the single-threaded update code, and its call/return stamps must admit a linearisation w.r.t. the round publications and the clears (not stale, not from the future, forgotten prefix explained by a clear, no clear entirely in between).",
    "Trusted base: the stamp counter (SeqCst), the digest function; interleavings are those the OS scheduler and the failpoint delays produced (counts in the evidence).", "DESIGN.md 3 C20")

NOT_APPLICABLE = []

def main():
    checks = []
    for pid in sorted(CHECKS):
        c = CHECKS[pid]
        checks.append({
            "property_id": pid,
            "quick_cmd": f"./check {pid} quick",
            "thorough_cmd": f"./check {pid} thorough",
            "evidence_file": f"/verif/evidence/{pid}.json",
            "replay_cmd_template": f"./check {pid} quick --replay {{path}}",
            "engine": "vcheck",
            "level_claimed": {"category": c["category"], "text": c["text"], "design_ref": c["ref"]},
            "level_note": c["note"],
            "technique": c["technique"],
        })
    props = [json.loads(l)["id"] for l in open(os.path.join(HERE, "properties.jsonl"))]
    na = [x for x in NOT_APPLICABLE]
    claimed = set(CHECKS)
    for p in props:
        if p not in claimed and p not in {x["property_id"] for x in na}:
            na.append({"property_id": p, "reason": "check not built yet in this round (planned, see DESIGN.md section 3); not a limit of the technique"})
    manifest = {
        "version": 1,
        "setup_cmd": "cd harness && CARGO_NET_OFFLINE=true cargo build --offline",
        "hooks": {
            "guard": "cargo feature `verif-hooks` (trippy-core, trippy-tui, trippy-dns; default off)",
            "enable": "the harness crate depends on the /repo crates by path with features = [\"verif-hooks\"]; ./check rebuilds it from /repo's working tree on every run",
            "baseline_off_cmd": "cd /repo && cargo nextest run --workspace --no-fail-fast --test-threads 8 --offline || cargo test --workspace --no-fail-fast --offline",
            "source_commits": hook_commits(),
            "add_only": True,
        },
        "engines": [
            {"name": "vcheck", "path": "harness/", "serves_properties": sorted(CHECKS), "kind_free_text": "Rust harness: simulated sockets + virtual clock + event-log oracles over the real trippy crates (runtime monitoring)"},
        ],
        "checks": checks,
        "not_applicable": na,
        "notes": "Exit codes: 0 held on everything explored (KNOWN-FINDING lines for entries of known_findings.json), 1 VIOLATION, 2 inconclusive (build failure, harness error, watchdog, monitors saw too little).",
    }
    with open(os.path.join(HERE, "MANIFEST.json"), "w") as f:
        json.dump(manifest, f, indent=1)
        f.write("\n")

if __name__ == "__main__":
    main()
