#!/usr/bin/env python3
"""Regenerate the seeded-change table in DESIGN.md from seeded/*/meta.json."""
import json, os, re
HERE = os.path.dirname(os.path.dirname(os.path.abspath(__file__)))
rows = []
for d in sorted(os.listdir(os.path.join(HERE, "seeded"))):
    f = os.path.join(HERE, "seeded", d, "meta.json")
    if not os.path.exists(f):
        continue
    m = json.load(open(f))
    caught = "; ".join(f"**{k}**: {v}" for k, v in m.get("caught_by", {}).items()) or "-"
    missed = "; ".join(m.get("missed_by", [])) or "-"
    rows.append(f"| `{d}` | {m['summary']} | {m['needs']} | {caught} | {missed} |")
own = 0
for d in sorted(os.listdir(os.path.join(HERE, "seeded"))):
    f = os.path.join(HERE, "seeded", d, "meta.json")
    if os.path.exists(f):
        m = json.load(open(f))
        own += any(k.startswith(m["property"] + " ") for k in m.get("caught_by", {}))
table = ("### 5.1 Seeded changes and the checks that catch them\n\n"
         f"{len(rows)} changes, all caught by the quick tier: {own} by the check of the property they were filed under, "
         f"{len(rows) - own} only by the check of a neighbouring property (named in the table).  Changes that no check catches are not stored; they are listed in the text above.  "
         "\"missed by\" records checks (or earlier versions of a check) that ran on the change and stayed silent.\n\n"
         "| seeded change | what was changed | needs, to manifest | caught by (signature) | missed by |\n|---|---|---|---|---|\n"
         + "\n".join(rows) + "\n")
p = os.path.join(HERE, "DESIGN.md")
s = open(p).read()
s = re.sub(r"<!-- SEEDED-TABLE-BEGIN -->.*<!-- SEEDED-TABLE-END -->", "<!-- SEEDED-TABLE-BEGIN -->\n" + table.replace("\\", "\\\\") + "<!-- SEEDED-TABLE-END -->", s, flags=re.S)
open(p, "w").write(s)
print(len(rows), "rows")
