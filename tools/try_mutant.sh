#!/usr/bin/env bash
# usage: tools/try_mutant.sh <patch.diff> <Cxx> [Cyy ...]   (applies to /repo, runs quick checks, reverts)
set -u
patch="$1"; shift
cd /verif
if ! git -C /repo diff --quiet; then echo "/repo has uncommitted changes"; exit 3; fi
if ! git -C /repo apply "$patch"; then echo "patch does not apply"; exit 3; fi
trap 'git -C /repo checkout -- . ' EXIT
for p in "$@"; do
  out=$(./check "$p" ${TIER:-quick} 2>&1); code=$?
  echo "== $p exit=$code $(echo "$out" | grep -c '^VIOLATION') violation lines"
  echo "$out" | grep -E "signature:|INCONCLUSIVE" | sort | uniq -c | sort -rn | head -${SHOW:-6}
done
