#!/usr/bin/env bash
# usage: tools/run_all.sh quick|thorough [seed]   - runs every registered check in turn, prints one line per check
cd "$(dirname "$0")/.."
tier="${1:-quick}"; seed="${2:-1}"
for p in $(python3 -c "import json;print(' '.join(c['property_id'] for c in json.load(open('MANIFEST.json'))['checks']))"); do
  t0=$(date +%s)
  out=$(VERIF_SEED=$seed ./check "$p" "$tier" 2>&1); code=$?
  t1=$(date +%s)
  echo "$p $tier seed=$seed exit=$code $((t1-t0))s $(echo "$out" | grep -c '^VIOLATION') violations $(echo "$out" | grep -c '^KNOWN-FINDING') known | $(echo "$out" | grep -E 'verdict=' | tr '\n' ' ' | cut -c1-200)"
  echo "$out" | grep -E "^VIOLATION|signature:|INCONCLUSIVE|^NOTE|Sanitizer pass" | head -8
done
