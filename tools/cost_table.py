#!/usr/bin/env python3
"""Fill the cost table in DESIGN.md from two `tools/run_all.sh` logs: cost_table.py <quick.log> <thorough.log>"""
import re, sys, os
HERE = os.path.dirname(os.path.dirname(os.path.abspath(__file__)))
def parse(path):
    out = {}
    for l in open(path):
        m = re.match(r"^(C\d\d) (quick|thorough) seed=(\d+) exit=(\d+) (\d+)s .*?evaluations=(\d+) distinct_nontrivial=(\d+)", l)
        if m:
            out[m.group(1)] = (int(m.group(5)), int(m.group(6)), int(m.group(7)), int(m.group(4)))
    return out
q, t = parse(sys.argv[1]), parse(sys.argv[2])
rows = ["| property | quick: wall s | evaluations | distinct non-trivial | thorough: wall s (all passes) | evaluations | distinct non-trivial |", "|---|---|---|---|---|---|---|"]
for p in sorted(set(q) | set(t)):
    a = q.get(p, ("-",) * 4); b = t.get(p, ("-",) * 4)
    rows.append(f"| {p} | {a[0]} | {a[1]} | {a[2]} | {b[0]} | {b[1]} | {b[2]} |")
tot_q = sum(v[0] for v in q.values()); tot_t = sum(v[0] for v in t.values())
text = ("Measured on this image with `tools/run_all.sh` (seed 1, 16 cores, warm build; thorough includes the shipped-profile repeat and the sanitizer passes where they apply; evaluations are scenarios / histories / sessions / runs, see the `rule` of each evidence file):\n\n"
        + "\n".join(rows) + f"\n\nAll quick checks in turn: {tot_q} s; all thorough checks in turn: {tot_t} s ({tot_t // 60} min).  Quick is what would run on every change; thorough is bounded by operation counts (and by the wall time of the stress runs in C20), so its verdicts do not depend on machine load.\n")
p = os.path.join(HERE, "DESIGN.md")
s = open(p).read()
s = re.sub(r"<!-- COSTS -->.*?(?=\Z)", "<!-- COSTS -->\n" + text, s, flags=re.S)
open(p, "w").write(s)
print("ok", tot_q, tot_t)
